"""First use under concurrency: module-level helpers (classification tables, codecs, registries) must give every thread the right
answer from the very first call of the process - also when two threads make that first call at the same time.

Each scenario runs in a *fresh* interpreter (lazily built state exists once per process): two controlled threads execute the same
workload; thread t0 is parked at its n-th library source line for half a virtual second (or runs in slow motion, n = 0) while t1 runs
its whole workload; both results are compared with the expected values computed by the caller.

  python -m vf.firstuse <workload> <n> <delay>      -> JSON {"t0": [...], "t1": [...], "error": str|None, "holds_taken": int}
"""
import json
import os
import subprocess
import sys

VERIF = os.path.dirname(os.path.dirname(os.path.abspath(__file__)))

C17_CODES = [1001, 2001, 2002, 3004, 3010, 4001, 4181, 5012, 5420, 5999, 999, 6001, 70001]
C18_STRINGS = ["5521993082672", "12", "123", "0", "9081726354", "19223195032424031", "00000", "55999000000001"]


def workload(name):
    if name == "c17":
        from bromelia import utils
        from bromelia.base import DiameterAnswer
        from bromelia.avps import ResultCodeAVP
        ints = ["is_result_code_family_1xxx", "is_result_code_family_2xxx", "is_result_code_family_3xxx", "is_result_code_family_4xxx",
                "is_result_code_family_5xxx"]
        anss = ["is_1xxx_informational", "is_2xxx_success", "is_3xxx_failure", "is_4xxx_failure", "is_5xxx_failure"]

        def run():
            out = []
            for n in C17_CODES:
                out.append([bool(getattr(utils, f)(n)) for f in ints])
                a = DiameterAnswer(command_code=257, application_id=0, avps=[ResultCodeAVP(n)])
                out.append([bool(getattr(utils, f)(a)) for f in anss])
            return out
        return run
    if name == "c18":
        from bromelia import utils

        def run():
            out = []
            for s in C18_STRINGS:
                e = utils.encode_to_tbcd(s)
                out.append([e, utils.decode_from_tbcd(e) if isinstance(e, str) else None])
            return out
        return run
    if name == "c01":
        from bromelia.base import DiameterMessage, DiameterHeader
        from bromelia.avps import OriginHostAVP, OriginRealmAVP, SessionIdAVP, UserNameAVP, ResultCodeAVP
        import threading

        def run():
            me = threading.current_thread().name
            k = 1 if me.endswith("0") else 2
            msg = DiameterMessage(DiameterHeader(command_code=316 + k, application_id=16777251, hop_by_hop=k, end_to_end=k),
                                  [SessionIdAVP(f"s;{k};{k}".encode()), OriginHostAVP("host%d.example" % k), OriginRealmAVP("realm%d" % k)]
                                  + [UserNameAVP("u" * (3 * k + j)) for j in range(4)] + [ResultCodeAVP(2000 + k)])
            return [msg.dump().hex() for _ in range(3)]
        return run
    if name == "c02":
        from bromelia.base import DiameterMessage
        wire = c02_wire()

        def run():
            out = []
            for _ in range(2):
                msgs = DiameterMessage.load(wire)
                out.append([type(a).__name__ for a in msgs[0].avps] + [type(m).__name__ for a in msgs[0].avps if hasattr(a, "avps") for m in a.avps])
            return out
        return run
    raise ValueError(name)


C02_AVPS = [(264, None, "OriginHostAVP", b"host.example"), (296, None, "OriginRealmAVP", b"example"), (268, None, "ResultCodeAVP", (2001).to_bytes(4, "big")),
            (257, None, "HostIpAddressAVP", b"\x00\x01\x0a\x00\x00\x01"), (701, 10415, "MsisdnAVP", bytes.fromhex("5512993082672f".ljust(14, "0"))[:7]),
            (1, None, "UserNameAVP", b"user"), (1405, 10415, "UlrFlagsAVP", (3).to_bytes(4, "big")), (99999, None, "DiameterAVP", b"xyz")]
C02_GROUP = (260, None, "VendorSpecificApplicationIdAVP", [(266, None, "VendorIdAVP", (10415).to_bytes(4, "big")), (258, None, "AuthApplicationIdAVP", (16777251).to_bytes(4, "big"))])


def c02_wire():
    sys.path.insert(0, VERIF)
    from vf import refcodec as rc
    enc = lambda c, v, d: rc.enc_avp(c, 0x40 | (0x80 if v else 0), v, d)
    avps = [enc(c, v, d) for c, v, _, d in C02_AVPS]
    g = C02_GROUP
    avps.append(enc(g[0], g[1], b"".join(enc(c, v, d) for c, v, _, d in g[3])))
    return rc.enc_msg(1, 0x80, 316, 16777251, 1, 2, avps)


def child(name, n, delay):
    sys.path.insert(0, VERIF)
    from vf import common
    common.bootstrap()
    from vf.dsched import Scheduler, Net, Patch
    sched = Scheduler(choices=None, line_preempt=False, trace_prefix=common.REPO.rstrip("/") + "/bromelia/", max_steps=300000, line_holds=True)
    net = Net(sched)
    res, err = {}, None
    with Patch(sched, net):
        sched.register_driver()
        try:
            run = workload(name)           # imports only: nothing of the workload has run yet in this process
            sched.hold("t0", "line:*", n, lambda: False, delay)

            def mk(i):
                def body():
                    try:
                        res[f"t{i}"] = run()
                    except BaseException as e:          # library errors derive from BaseException
                        if type(e).__name__ == "Killed":
                            raise
                        res[f"t{i}"] = f"raised {type(e).__name__}: {e}"
                return body
            # t1 enters only once t0 is parked (or, in slow motion, has taken its first pause) in the middle of its first calls
            cts = [sched.spawn(mk(0), "t0")]
            sched.run_until(lambda: bool(sched.hold_log) or cts[0].state == "finished", 30.0)
            cts.append(sched.spawn(mk(1), "t1"))
            sched.run_until(lambda: all(c.state == "finished" for c in cts), 60.0)
        except Exception as e:
            err = repr(e)
        finally:
            sched.kill_all()
    print("@@" + json.dumps({"t0": res.get("t0"), "t1": res.get("t1"), "error": err, "holds_taken": sched.holds_taken}))


def expected(name):
    """reference values, computed without the library"""
    if name == "c17":
        out = []
        for n in C17_CODES:
            fam = [n // 1000 == k and n % 1000 != 0 for k in range(1, 6)]
            out += [fam, fam]
        return out
    if name == "c18":
        def ref(s):
            s2 = s + ("f" if len(s) % 2 else "")
            return "".join(s2[i + 1] + s2[i] for i in range(0, len(s2), 2))
        return [[ref(s), s] for s in C18_STRINGS]
    if name == "c02":
        names = [n for _, _, n, _ in C02_AVPS] + [C02_GROUP[2]] + [n for _, _, n, _ in C02_GROUP[3]]
        return [names, names]
    return None


VARIANTS = [(0, 0.002), (0, 0.02), (3, 0.5), (12, 0.5), (40, 0.5), (150, 0.5), (300, 0.5), (600, 0.5), (1000, 0.5), (1500, 0.5), (2500, 0.5), (4000, 0.5),
            (8000, 0.5)]


def run_variant(args):
    name, n, delay, repo = args
    env = dict(os.environ, VERIF_REPO=repo, PYTHONHASHSEED="0", PYTHONDONTWRITEBYTECODE="1")
    p = subprocess.run([sys.executable, "-m", "vf.firstuse", name, str(n), str(delay)], cwd=VERIF, env=env, capture_output=True, text=True, timeout=600)
    line = next((l for l in p.stdout.splitlines() if l.startswith("@@")), None)
    if line is None:
        return {"n": n, "delay": delay, "error": f"child failed (exit {p.returncode}): {p.stderr[-300:]}"}
    d = json.loads(line[2:])
    d.update(n=n, delay=delay)
    return d


if __name__ == "__main__":
    child(sys.argv[1], int(sys.argv[2]), float(sys.argv[3]))

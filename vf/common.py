"""Common machinery: bootstrap, seeds, collector (buckets / classes / distinct
non-trivial cases), known findings, evidence writer, Hypothesis drivers
(collect-then-shrink), ddmin, sharding."""
import collections
import hashlib
import json
import multiprocessing
import os
import sys
import time
import traceback

VERIF = os.path.dirname(os.path.dirname(os.path.abspath(__file__)))
REPO = os.environ.get("VERIF_REPO", "/repo")
# sensitivity runs only (tools/eval_seeded.py --private): evidence and new-* replays of a run against a patched private worktree go
# to VERIF_OUT so that they never overwrite what the registered commands wrote for /repo; registered commands never set it
OUT = os.environ.get("VERIF_OUT") or None
DEPS = os.path.join(VERIF, ".deps")


def bootstrap():
    """Make /repo's working tree the imported bromelia, quiet logging."""
    sys.dont_write_bytecode = True
    if DEPS not in sys.path and os.path.isdir(DEPS):
        sys.path.append(DEPS)
    if REPO not in sys.path:
        sys.path.insert(0, REPO)
    import logging, warnings
    warnings.filterwarnings('ignore', category=SyntaxWarning)
    logging.disable(logging.CRITICAL)
    _install_line_coverage()
    import bromelia
    assert os.path.abspath(bromelia.__file__).startswith(os.path.abspath(REPO) + os.sep), bromelia.__file__
    return bromelia


_COV = {"installed": False}


def _install_line_coverage():
    """Diagnostic only (VERIF_COV_DIR=<dir>): every source line of REPO/bromelia executed by this process is appended once to
    <dir>/<pid>.lines.  Used by tools/coverage_report.py to find library code that no check reaches; never part of a verdict."""
    d = os.environ.get("VERIF_COV_DIR")
    if not d or _COV["installed"] or not hasattr(sys, "monitoring"):
        return
    _COV["installed"] = True
    mon = sys.monitoring
    try:
        mon.use_tool_id(3, "verif-linecov")
    except ValueError:
        return
    os.makedirs(d, exist_ok=True)
    prefix = os.path.abspath(REPO).rstrip("/") + "/bromelia/"
    fh = open(os.path.join(d, f"{os.getpid()}.lines"), "a", buffering=1)

    def on_line(code, line):
        if code.co_filename.startswith(prefix):
            try:
                fh.write(f"{code.co_filename[len(prefix):]}:{line}\n")
            except Exception:
                pass
        return mon.DISABLE

    mon.register_callback(3, mon.events.LINE, on_line)
    mon.set_events(3, mon.events.LINE)


def lib_errors():
    """Every exception class defined in bromelia.exceptions (they derive from
    BaseException, so they must be caught explicitly)."""
    bootstrap()
    import bromelia.exceptions as ex
    out = []
    for name in dir(ex):
        obj = getattr(ex, name)
        if isinstance(obj, type) and issubclass(obj, BaseException) and obj.__module__ == ex.__name__:
            out.append(obj)
    return tuple(out)


def seed_value():
    try:
        return int(os.environ.get("VERIF_SEED", "1"))
    except ValueError:
        return 1


def canon(case):
    return json.dumps(case, sort_keys=True, separators=(",", ":"), default=_json_default)


def _json_default(o):
    if isinstance(o, (bytes, bytearray)):
        return {"$hex": bytes(o).hex()}
    if isinstance(o, (set, frozenset)):
        return sorted(o)
    if isinstance(o, tuple):
        return list(o)
    return repr(o)


def case_hash(case):
    return hashlib.sha1(canon(case).encode()).hexdigest()


def short(obj, limit=1500):
    s = canon(obj)
    if len(s) <= limit:
        return json.loads(s)
    return {"truncated_json": s[:limit] + "...", "full_len": len(s)}


class V:
    """One violation of one oracle clause."""
    __slots__ = ("clause", "sig", "detail")

    def __init__(self, clause, sig, detail=""):
        self.clause = clause
        self.sig = sig
        self.detail = str(detail)[:800]

    def __repr__(self):
        return f"V({self.clause!r}, {self.sig!r}, {self.detail!r})"


class Collector:
    """Per-run bookkeeping.  A *bucket* is one root-cause signature."""

    def __init__(self, pid, rule, max_samples=5):
        self.pid = pid
        self.rule = rule
        self.evaluations = 0
        self.nt = set()
        self.nt_enum = 0             # distinct-by-construction non-trivial cases from exhaustive enumeration
        self.classes = collections.Counter()
        self.discards = collections.Counter()
        self.samples = []
        self._sample_classes = set()
        self.max_samples = max_samples
        self.buckets = {}            # sig -> dict(clause, detail, case, count)
        self.extra = {}
        self.exhaustive = False
        self.inconclusive = []

    # ------------------------------------------------------------------
    def record(self, case, violations=(), nontrivial=False, classes=(), discard=None, sample=None):
        self.evaluations += 1
        if discard:
            self.discards[discard] += 1
        for c in classes:
            self.classes[c] += 1
        if nontrivial:
            h = case_hash(case)
            if h not in self.nt:
                self.nt.add(h)
                key = tuple(sorted(classes))[:3]
                if len(self.samples) < self.max_samples and (key not in self._sample_classes or len(self.samples) < 2):
                    self._sample_classes.add(key)
                    self.samples.append(short(sample if sample is not None else case))
        for v in violations:
            b = self.buckets.get(v.sig)
            if b is None:
                self.buckets[v.sig] = dict(clause=v.clause, detail=v.detail, case=case, count=1,
                                           size=len(canon(case)))
            else:
                b["count"] += 1
                sz = len(canon(case))
                if sz < b["size"]:
                    b.update(case=case, detail=v.detail, size=sz)

    def count_enum(self, n, n_nontrivial, classes=None):
        """For exhaustive enumerations (no repeats by construction): count
        cases without storing a hash per case."""
        self.evaluations += n
        self.nt_enum += n_nontrivial
        for c, k in (classes or {}).items():
            self.classes[c] += k

    def violation(self, case, v):
        self.record(case, [v])
        self.evaluations -= 1

    @property
    def n_nontrivial(self):
        return len(self.nt) + self.nt_enum

    def merge(self, other):
        self.evaluations += other.evaluations
        self.nt |= other.nt
        self.nt_enum += other.nt_enum
        self.classes.update(other.classes)
        self.discards.update(other.discards)
        for s in other.samples:
            if len(self.samples) < self.max_samples and s not in self.samples:
                self.samples.append(s)
        for sig, b in other.buckets.items():
            mine = self.buckets.get(sig)
            if mine is None:
                self.buckets[sig] = dict(b)
            else:
                mine["count"] += b["count"]
                if b["size"] < mine["size"]:
                    mine.update(case=b["case"], detail=b["detail"], size=b["size"])
        for k, v in other.extra.items():
            if isinstance(v, (int, float)) and isinstance(self.extra.get(k, 0), (int, float)):
                self.extra[k] = self.extra.get(k, 0) + v
            else:
                self.extra.setdefault(k, v)
        self.inconclusive += other.inconclusive


# ----------------------------------------------------------------------
# known findings

def load_known(pid):
    """Returns (findings: {sig: text}, fixed: [text]) for one property."""
    path = os.path.join(VERIF, "KNOWN_FINDINGS.txt")
    findings, fixed = {}, []
    if not os.path.exists(path):
        return findings, fixed
    for line in open(path, encoding="utf-8"):
        line = line.strip()
        if not line or line.startswith("#"):
            continue
        if line.startswith("finding:"):
            rest = line[len("finding:"):].strip()
            toks = rest.split(None, 2)
            kv = dict(t.split("=", 1) for t in toks[:2] if "=" in t)
            if kv.get("property") == pid and "sig" in kv:
                findings[kv["sig"]] = toks[2] if len(toks) > 2 else ""
        elif line.startswith("fixed:"):
            rest = line[len("fixed:"):].strip()
            if rest.startswith(f"property={pid} "):
                fixed.append(rest)
    return findings, fixed


# ----------------------------------------------------------------------
# context / finalisation

class Ctx:
    def __init__(self, pid, tier, seed, level="exploration"):
        self.pid = pid
        self.tier = tier
        self.seed = seed
        self.level = level
        self.t0 = time.time()
        self.assumptions = []
        self.shrinker = None     # callable(sig, case) -> smaller case (optional)
        self.required_classes = []   # class names that must be non-empty, else exit 2

    @property
    def quick(self):
        return self.tier == "quick"


def write_replay(pid, sig, case, clause, detail, prefix="new"):
    d = os.path.join(OUT or VERIF, "replays", pid)
    os.makedirs(d, exist_ok=True)
    h = hashlib.sha1((sig + canon(case)).encode()).hexdigest()[:12]
    path = os.path.join(d, f"{prefix}-{h}.json")
    with open(path, "w") as f:
        json.dump({"property": pid, "sig": sig, "clause": clause, "detail": detail,
                   "expect": "ok", "case": json.loads(canon(case))}, f, indent=1, sort_keys=True)
    return path


def finalize(ctx, col):
    """Print KNOWN-FINDING / VIOLATION lines, write evidence, return exit code."""
    known, fixed = load_known(ctx.pid)
    new = []
    seen_known = {}
    for sig, b in sorted(col.buckets.items()):
        if sig in known:
            seen_known[sig] = b
        else:
            new.append((sig, b))
    for sig, text in sorted(known.items()):
        if sig in seen_known:
            print(f"KNOWN-FINDING: property={ctx.pid} sig={sig} {text} (seen {seen_known[sig]['count']}x this run)")
        else:
            print(f"KNOWN-FINDING: property={ctx.pid} sig={sig} {text} (listed; not exercised by this run)")
    code = 0
    vio_paths = []
    shrink_deadline = time.time() + (90 if ctx.tier == "quick" else 600)
    for i, (sig, b) in enumerate(new):
        case = b["case"]
        if ctx.shrinker is not None and i < 8 and time.time() < shrink_deadline and not os.environ.get("VERIF_NO_SHRINK"):
            try:
                small = ctx.shrinker(sig, case)
                if small is not None:
                    case = small
            except BaseException as e:       # shrinking is best effort
                print(f"note: shrinking {sig} failed: {type(e).__name__}: {e}")
        path = write_replay(ctx.pid, sig, case, b["clause"], b["detail"])
        vio_paths.append(path)
        print(f"VIOLATION property={ctx.pid} replay={path}")
        print(f"  clause: {b['clause']}\n  signature: {sig}\n  detail: {b['detail']}\n  occurrences: {b['count']}")
        code = 1
    missing = [c for c in ctx.required_classes if col.classes.get(c, 0) == 0]
    samples = col.samples or []
    cov = {
        "evaluations": col.evaluations,
        "distinct_nontrivial": col.n_nontrivial,
        "rule": col.rule,
        "samples": samples,
        "classes": dict(sorted(col.classes.items())),
        "discards": dict(col.discards),
        "known_findings_seen": {s: b["count"] for s, b in seen_known.items()},
        "new_violation_buckets": [s for s, _ in new],
        "inconclusive": col.inconclusive[:20],
    }
    if col.exhaustive:
        cov["exhaustive"] = True
    cov.update(col.extra)
    ev = {
        "property_id": ctx.pid,
        "tier": ctx.tier,
        "seed": ctx.seed,
        "level": ctx.level,
        "coverage": cov,
        "assumptions": ctx.assumptions,
        "wall_s": round(time.time() - ctx.t0, 2),
        "violations": len(new),
    }
    os.makedirs(os.path.join(OUT or VERIF, "evidence"), exist_ok=True)
    with open(os.path.join(OUT or VERIF, "evidence", f"{ctx.pid}.json"), "w") as f:
        json.dump(ev, f, indent=1, sort_keys=True, default=_json_default)
    print(f"{ctx.pid} tier={ctx.tier} seed={ctx.seed} evaluations={col.evaluations} "
          f"distinct_nontrivial={col.n_nontrivial} new_buckets={len(new)} known_seen={len(seen_known)} "
          f"wall={ev['wall_s']}s")
    if code == 0 and missing:
        print(f"HARNESS-ERROR: required case classes never generated: {missing}")
        return 2
    if code == 0 and (col.evaluations < 1 or col.n_nontrivial < 2):
        print("HARNESS-ERROR: run generated fewer than 2 distinct non-trivial cases")
        return 2
    return code


# ----------------------------------------------------------------------
# Hypothesis drivers

class _StopShrink(BaseException):
    pass


def hyp_settings(n, shrink=False):
    from hypothesis import settings, Phase, HealthCheck
    phases = [Phase.generate] + ([Phase.shrink] if shrink else [])
    return settings(max_examples=n, database=None, deadline=None, derandomize=False,
                    report_multiple_bugs=False, phases=phases,
                    suppress_health_check=list(HealthCheck), print_blob=False)


def hyp_collect(strategy, body, n, seed):
    """Run body(case) for n generated cases.  body must not raise for property
    violations (it records them in a Collector)."""
    import hypothesis
    from hypothesis import given

    @hypothesis.seed(seed)
    @hyp_settings(n)
    @given(strategy)
    def t(case):
        body(case)
    t()


def hyp_shrink(strategy, has_sig, seed, n=400, budget_s=60, first=None):
    """Second pass: Hypothesis search + shrink for one bucket.
    has_sig(case) -> bool.  Returns the smallest failing case seen, or None."""
    import hypothesis
    from hypothesis import given, example
    best = [None]
    t_end = time.time() + budget_s

    class _Hit(Exception):
        pass

    def inner(case):
        if time.time() > t_end:
            raise _StopShrink()
        if has_sig(case):
            if best[0] is None or len(canon(case)) <= len(canon(best[0])):
                best[0] = case
            raise _Hit()

    t = given(strategy)(lambda case: inner(case))
    t = hyp_settings(n, shrink=True)(t)
    t = hypothesis.seed(seed)(t)
    try:
        t()
    except (_Hit, _StopShrink):
        pass
    except Exception:
        pass
    return best[0]


def ddmin_list(items, test, budget_s=30):
    """Classic ddmin on a list; test(sub) -> True when the failure persists."""
    t_end = time.time() + budget_s
    n = 2
    items = list(items)
    while len(items) >= 2 and time.time() < t_end:
        chunk = max(1, len(items) // n)
        subsets = [items[i:i + chunk] for i in range(0, len(items), chunk)]
        reduced = False
        for i in range(len(subsets)):
            comp = [x for j, s in enumerate(subsets) if j != i for x in s]
            if comp and test(comp):
                items = comp
                n = max(n - 1, 2)
                reduced = True
                break
        if not reduced:
            if n >= len(items):
                break
            n = min(len(items), n * 2)
    return items


# ----------------------------------------------------------------------
# sharding

def _shard_entry(args):
    fn, shard, seed, kw = args
    try:
        return ("ok", fn(shard, seed, **kw))
    except BaseException as e:
        return ("err", f"shard {shard}: {type(e).__name__}: {e}\n{traceback.format_exc()}")


def _pool(n):
    """Worker pool of fresh interpreters ("spawn").  fork is avoided on purpose: children of the large parent
    heap spend most of their time in copy-on-write page faults in this sandbox (measured 4-9x slowdown)."""
    ctxm = multiprocessing.get_context("spawn")
    return ctxm.Pool(min(n, os.cpu_count() or 1), initializer=_child_init, initargs=(list(sys.path),))


def _child_init(path):
    for p in path:
        if p not in sys.path:
            sys.path.append(p)
    sys.dont_write_bytecode = True
    bootstrap()


def run_shards(fn, nshards, seed, **kw):
    """fn(shard, seed, **kw) -> Collector; run in a process pool and merge.  fn must be a module-level function."""
    if nshards <= 1:
        return fn(0, seed * 1000, **kw)
    with _pool(nshards) as pool:
        results = pool.map(_shard_entry, [(fn, s, seed * 1000 + s, kw) for s in range(nshards)], chunksize=1)
    merged = None
    for status, r in results:
        if status == "err":
            raise RuntimeError(r)
        if merged is None:
            merged = r
        else:
            merged.merge(r)
    return merged


def pmap(fn, jobs, n=16):
    """unordered parallel map over jobs with module-level fn; yields results"""
    with _pool(n) as pool:
        for r in pool.imap_unordered(fn, jobs, chunksize=1):
            yield r


def load_replays(pid):
    d = os.path.join(VERIF, "replays", pid)
    out = []
    if os.path.isdir(d):
        for fn in sorted(os.listdir(d)):
            if fn.endswith(".json") and not fn.startswith("new-"):
                with open(os.path.join(d, fn)) as f:
                    out.append((os.path.join(d, fn), json.load(f)))
    return out


# ---------------------------------------------------------------------------------------------------------------------------
# process time zone as a case dimension: the encoding of a (naive) datetime must not depend on where the process runs
TZS = ["UTC0", "CET-1CEST,M3.5.0,M10.5.0/3", "IST-5:30", "<-03>3", "NZST-12NZDT,M9.5.0,M4.1.0/3", "EST5EDT,M3.2.0,M11.1.0"]


class process_tz:
    """with process_tz("CET-1CEST,..."): ...   POSIX TZ strings only (no zoneinfo database needed); None = leave as is"""
    def __init__(self, tz):
        self.tz = tz

    def __enter__(self):
        if self.tz is None:
            return self
        import os
        import time
        self.old = os.environ.get("TZ")
        os.environ["TZ"] = self.tz
        time.tzset()
        return self

    def __exit__(self, *a):
        if self.tz is None:
            return False
        import os
        import time
        if self.old is None:
            os.environ.pop("TZ", None)
        else:
            os.environ["TZ"] = self.old
        time.tzset()
        return False


def first_use_sweep(col, name, pid_clause):
    """runs vf.firstuse VARIANTS for workload `name` (each in a fresh interpreter, in parallel) and records them in `col`"""
    from . import firstuse
    want = firstuse.expected(name)
    jobs = [(name, n, d, REPO) for n, d in firstuse.VARIANTS]
    for r in pmap(firstuse.run_variant, jobs, n=len(jobs)):
        case = {"kind": "first-use", "workload": name, "n": r["n"], "delay": r["delay"]}
        if r.get("error"):
            raise RuntimeError(f"first-use harness: {r['error']}")
        vs = []
        t0, t1 = r.get("t0"), r.get("t1")
        if name == "c01":
            # each thread serialises its own message three times: all three equal, and equal to what the other variants produce alone
            for t, v in (("t0", t0), ("t1", t1)):
                if not isinstance(v, list) or len(set(v)) != 1:
                    vs.append(V(pid_clause, f"first-use/{name}/unstable-result", f"thread {t} with t0 parked at line {r['n']}: {str(v)[:300]}"))
            case["_dumps"] = [t0[0] if isinstance(t0, list) and t0 else None, t1[0] if isinstance(t1, list) and t1 else None]
        else:
            for t, v in (("t0", t0), ("t1", t1)):
                if v != want:
                    bad = next((i for i, (a, b) in enumerate(zip(v, want)) if a != b), None) if isinstance(v, list) else None
                    vs.append(V(pid_clause, f"first-use/{name}/wrong-result-in-{'the-parked-thread' if t == 't0' else 'the-other-thread'}",
                                f"t0 parked at its line {r['n']} for {r['delay']} s: item {bad}: got {v[bad] if bad is not None else str(v)[:200]}, want {want[bad] if bad is not None else ''}"))
        col.record({k: v for k, v in case.items() if not k.startswith("_")}, vs, nontrivial=bool(r.get("holds_taken")),
                   classes=["first-use-concurrent"] + (["first-use-parked-mid-call"] if r.get("holds_taken") else []))
        yield case


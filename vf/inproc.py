"""In-process Bromelia application: real Bromelia / Worker objects, no
multiprocessing (a fake manager hands out thread-level primitives)."""
import os
import queue
import tempfile
import threading

from . import common


class FakeLock:
    """never blocks; counts acquisitions so the harness can see double sends"""
    def __init__(self):
        self.acquired = 0
        self.released = 0

    def acquire(self, blocking=True, timeout=-1):
        self.acquired += 1
        return True

    def release(self):
        self.released += 1

    def __enter__(self):
        self.acquire()

    def __exit__(self, *a):
        self.release()


class FakeManager:
    def Event(self):
        return threading.Event()

    def Queue(self):
        return queue.Queue()

    def Lock(self):
        return FakeLock()


APPS = {
    # name -> (yaml constant names, app id int)
    "s6a": ("VENDOR_ID_3GPP", "DIAMETER_APPLICATION_S6a_S6d", 16777251),
    "swx": ("VENDOR_ID_3GPP", "DIAMETER_APPLICATION_SWx", 16777265),
    "gx": ("VENDOR_ID_3GPP", "DIAMETER_APPLICATION_Gx", 16777238),
    "rx": ("VENDOR_ID_3GPP", "DIAMETER_APPLICATION_Rx", 16777236),
    "swm": ("VENDOR_ID_3GPP", "DIAMETER_APPLICATION_SWm", 16777264),
    "s13": ("VENDOR_ID_3GPP", "DIAMETER_APPLICATION_S13_S13", 16777252),
    "s6b": ("VENDOR_ID_3GPP", "DIAMETER_APPLICATION_S6b", 16777272),
    "gy": ("VENDOR_ID_3GPP", "DIAMETER_APPLICATION_Gy", 4),
}


def make_app(app_names, local_host="local.node.example", local_realm="local.example", manager=None):
    """-> (Bromelia app, {app id bytes: Worker}).  One spec entry (= one worker) per application."""
    common.bootstrap()
    import yaml
    import bromelia.bromelia as bb
    from bromelia.bromelia import Bromelia, Worker
    bb.PROCESS_TIMER = 0
    bb.SEND_THRESHOLD_TICKER = 0
    Worker.associations.clear()
    del Worker.recv_queues[:]
    specs = []
    for i, name in enumerate(app_names):
        v, a, _ = APPS[name]
        specs.append({"applications": [{"vendor_id": v, "app_id": a}], "mode": "Server", "watchdog_timeout": 30,
                      "local": {"ip_address": "127.0.0.1", "hostname": f"{name}.{local_host}", "realm": local_realm, "port": 3868 + i},
                      "peer": {"ip_address": "127.0.0.1", "hostname": "peer.example", "realm": "peer.realm", "port": 4000 + i}})
    fd, path = tempfile.mkstemp(prefix="inproc-", suffix=".yaml")
    try:
        with os.fdopen(fd, "w") as f:
            yaml.safe_dump({"api_version": "v1", "name": "verif", "spec": specs}, f)
        app = Bromelia(config_file=path)
    finally:
        os.unlink(path)
    diams = app._create_applications(False, False)
    workers = {}
    mgr = manager or FakeManager()
    for d in diams:
        w = Worker(d, mgr)
        w.is_open.set()
        for application in d.config["APPLICATIONS"]:
            workers[application["app_id"]] = w
    app.recv_queues = Worker.recv_queues
    app.associations = Worker.associations
    return app, workers


def drain(worker):
    out = []
    while not worker.send_queue.empty():
        out.append(worker.send_queue.get())
    return out

"""atheris (libFuzzer) campaign for C03(a).  Run as:
    python -m vf.fuzz_c03 <outdir> <seed-corpus:0|1> [libFuzzer args...]
The semantic oracle (step bound, library error types, bounded result) runs inside
the target; violations are bucketed by signature and written to <outdir>/findings.json
(the campaign continues behind them)."""
import json
import os
import sys


def main():
    outdir = sys.argv[1]
    seed_corpus = sys.argv[2] == "1"
    fargs = sys.argv[3:]
    here = os.path.dirname(os.path.dirname(os.path.abspath(__file__)))
    sys.path.insert(0, here)
    from vf import common
    import atheris
    with atheris.instrument_imports(include=["bromelia"]):
        common.bootstrap()
        from vf import refdict
        refdict.all_classes()
    from vf.checks import c03, c02
    os.makedirs(outdir, exist_ok=True)
    corpus = os.path.join(outdir, "corpus")
    os.makedirs(corpus, exist_ok=True)
    if seed_corpus:
        from bromelia.messages import CER, DWR, DPR
        from bromelia.lib.etsi_3gpp_s6a.messages import UpdateLocationRequest, AuthenticationInformationAnswer
        C = refdict.cls_obj
        seeds = [CER(origin_host="a.example", origin_realm="example", host_ip_address="10.0.0.1").dump(),
                 DWR(origin_host="a", origin_realm="b").dump(), DPR(origin_host="a", origin_realm="b").dump(),
                 UpdateLocationRequest(session_id=b"s;1;1", origin_host="h", origin_realm="r", destination_realm="r", user_name="00101",
                                       visited_plmn_id=b"\x00\xf1\x10",
                                       supported_features=[C("VendorIdAVP")(10415), C("FeatureListIdAVP")(1), C("FeatureListAVP")(3)]).dump(),
                 AuthenticationInformationAnswer(session_id=b"s;1;2", origin_host="h", origin_realm="r", result_code=2001).dump()]
        for i, s in enumerate(seeds):
            with open(os.path.join(corpus, f"seed{i}"), "wb") as f:
                f.write(s)
    findings = {}
    stats = {"execs": 0, "malformed": 0, "distinct_malformed": 0}
    seen = set()
    fpath = os.path.join(outdir, "findings.json")

    def flush():
        with open(fpath, "w") as f:
            json.dump({"findings": findings, "stats": stats}, f)

    def target(data):
        stats["execs"] += 1
        vs = c03.check_bytes(data)
        if len(data) > 4 and c03.is_malformed(data):
            stats["malformed"] += 1
            h = hash(data)
            if h not in seen:
                seen.add(h)
                stats["distinct_malformed"] += 1
        for v in vs:
            if v.sig not in findings or len(data) < len(bytes.fromhex(findings[v.sig]["hex"])):
                findings[v.sig] = {"clause": v.clause, "detail": v.detail, "hex": data.hex()}
                flush()
        if stats["execs"] % 20000 == 0:
            flush()

    atheris.Setup([sys.argv[0]] + fargs + [corpus], target)
    try:
        atheris.Fuzz()
    finally:
        flush()


if __name__ == "__main__":
    main()

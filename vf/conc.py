"""Schedule strategies shared by the concurrency checks.

A schedule is a list of small integers consumed one per scheduling point as an
index into the enabled-thread list (current thread first): 0 = keep running,
k > 0 = switch to the k-th other enabled thread.  After the list is exhausted
the scheduler completes the run with its fair policy."""
from hypothesis import strategies as st


def _walk(p_num, length):
    # switch with probability p_num/100
    weights = [0] * (100 - p_num) + [1, 2, 3] * max(1, p_num // 3)
    return st.lists(st.sampled_from(weights), min_size=length // 4, max_size=length)


@st.composite
def pct(draw, length, depth=3, nthreads=5):
    """PCT-like: run one thread until a change point, then force a switch; d-1 change points"""
    k = draw(st.integers(1, depth))
    pts = sorted(draw(st.lists(st.integers(0, length - 1), min_size=k, max_size=k, unique=True)))
    out = [0] * length
    for p in pts:
        out[p] = draw(st.integers(1, nthreads))
    # an initial choice of who starts
    out[0] = draw(st.integers(0, nthreads))
    return out


def schedules(length=300):
    return st.one_of(
        st.just([]),                         # purely fair
        _walk(2, length), _walk(10, length), _walk(50, length),
        pct(length), pct(length // 3),
    )


def sched_features(sched, w):
    f = set()
    if sched:
        f.add("generated-prefix")
    if any(sched):
        f.add("prefix-with-switch")
    if w is not None:
        if w.sched.line_switches:
            f.add("preempted-at-source-line")
        if w.sched.switches:
            f.add("context-switches")
    return f


HOLD_THREADS = ["transport_layer_thread", "transport_layer_thread", "recv_message_monitor", "recv_message_monitor", "PSM", "PSM", "consumer-0", "consumer-1", "submitter-0", "submitter-1", "closer"]
HOLD_KINDS = ["lock.acquire", "lock.release", "lock.released", "lock.released", "lock.released", "event.set", "event.clear", "event.wait", "queue.put", "queue.get", "queue.empty",
              "selector.select", "selector.modify", "sock.recv", "sock.send", "sleep"]


def holds(max_n=2, bias=None):
    """targeted delays: thread T pauses at its n-th visit of a point of kind K for d virtual seconds"""
    one = st.builds(lambda t, k, n, d: [t, k, n, d], st.sampled_from(HOLD_THREADS), st.sampled_from(HOLD_KINDS), st.integers(1, 6),
                    st.sampled_from([0.001, 0.02, 0.3]))
    # directed recipes: a library thread is delayed, for longer than a state-machine tick, right after it left a critical
    # section (its n-th one since the generated part began) - the classic check-then-act window
    recipe = st.builds(lambda t, n, d: [[t, "lock.released", n, d]], st.sampled_from(["transport_layer_thread", "recv_message_monitor", "PSM"]),
                       st.integers(1, 5), st.sampled_from([0.02, 0.02, 0.3]))
    # a delay between two source lines inside one of the transport / association functions (check-then-act without any
    # synchronisation call in between); needs a World built with line_holds=True (see wants_line_holds)
    line = st.builds(lambda t, f, n, d: [[t, "line:" + f, n, d]], st.sampled_from(HOLD_THREADS), st.sampled_from(LINE_FUNCS), st.integers(1, 40),
                     st.sampled_from([0.001, 0.02, 0.3]))
    # directed: an application thread (consumer / submitter) is delayed between two source lines of the API function it is in
    # (test-then-wait, test-then-clear without a synchronisation call in between), for long enough that the library threads
    # complete a whole hand-over meanwhile
    api = st.builds(lambda t, f, n, d: [[t, "line:" + f, n, d]], st.sampled_from(["consumer-0", "consumer-0", "consumer-1", "submitter-0", "submitter-1"]),
                    st.sampled_from(["get_message", "get_message", "get_postprocess_recv_message", "send_message", "put_message_into_send_queue"]),
                    st.integers(1, 14), st.sampled_from([0.02, 0.3, 0.3]))
    # slow motion: a thread pauses at *every* source line it executes inside one function (n = 0), so that the other threads
    # complete whole hand-overs between any two of its lines - every check-then-act window of that function is held open at once
    slow = st.one_of(
        st.builds(lambda t, f, d: [[t, "line:" + f, 0, d]], st.sampled_from(["consumer-0", "consumer-0", "consumer-1"]),
                  st.sampled_from(["get_message", "get_message", "get_postprocess_recv_message"]), st.sampled_from([0.004, 0.011, 0.03])),
        st.builds(lambda t, f, d: [[t, "line:" + f, 0, d]], st.sampled_from(["submitter-0", "submitter-1", "closer"]),
                  st.sampled_from(["send_message", "send_messages", "put_message_into_send_queue", "close"]), st.sampled_from([0.004, 0.011, 0.03])),
        st.builds(lambda t, f, d: [[t, "line:" + f, 0, d]], st.sampled_from(["transport_layer_thread", "recv_message_monitor", "PSM"]),
                  st.sampled_from(LINE_FUNCS), st.sampled_from([0.004, 0.011, 0.03])))
    # rendezvous: an application thread pauses at its n-th source line inside an API function until a library thread has done its
    # next signalling / hand-over step (test ... [the signal lands here] ... clear/wait)
    until = st.builds(lambda t, f, n, u, k: [[t, "line:" + f, n, 2.0, u, k]],
                      st.sampled_from(["consumer-0", "consumer-0", "consumer-1", "submitter-0", "closer"]),
                      st.sampled_from(["get_message", "get_message", "get_postprocess_recv_message", "send_message", "put_message_into_send_queue", "close"]),
                      st.integers(1, 12), st.sampled_from(["PSM", "PSM", "transport_layer_thread", "recv_message_monitor"]),
                      st.sampled_from(["event.set", "event.set", "event.clear", "queue.put", "queue.get", "lock.released"]))
    alts = [st.just([]), recipe, st.lists(one, min_size=1, max_size=max_n), line, api, slow, slow, until, until]
    if bias == "consumer":
        # the check's own API threads are consumers: slow motion inside get_message() gets a larger share
        alts += [st.builds(lambda t, f, d: [[t, "line:" + f, 0, d]], st.sampled_from(["consumer-0", "consumer-0", "consumer-1"]),
                           st.sampled_from(["get_message", "get_message", "get_postprocess_recv_message"]), st.sampled_from([0.004, 0.011, 0.03]))] * 2
    if bias == "two-consumers":
        # two application threads inside the delivery API and the thread that ends the connection: consumer A pauses inside
        # get_postprocess_recv_message() until the state machine thread has signalled (close() sets the wake-up event), consumer B
        # pauses inside get_message() until A has cleared / passed the event
        alts += [st.builds(lambda a, n1, n2, k1, k2: [[f"consumer-{a}", "line:get_postprocess_recv_message", n1, 2.0, "PSM", k1],
                                                      [f"consumer-{1 - a}", "line:get_message", n2, 2.0, f"consumer-{a}", k2]],
                           st.integers(0, 1), st.integers(1, 8), st.integers(1, 8), st.sampled_from(["event.set", "event.set", "lock.released"]),
                           st.sampled_from(["event.clear", "event.clear", "lock.released"]))] * 3
    if bias == "submitter":
        alts += [st.builds(lambda t, f, d: [[t, "line:" + f, 0, d]], st.sampled_from(["submitter-0", "submitter-0", "submitter-1"]),
                           st.sampled_from(["send_message", "send_messages", "put_message_into_send_queue"]), st.sampled_from([0.004, 0.011, 0.03]))] * 2
    return st.one_of(*alts)


LINE_FUNCS = ["_run", "_write", "write", "_read", "read", "_set_selector_events_mask", "close", "recv_message_from_queue", "put_message_into_send_queue",
              "send_message_from_queue", "get_message", "get_postprocess_recv_message", "send_message", "send_messages", "tracking_events"]


def wants_line_holds(holds_):
    return any(h[1].startswith("line:") for h in holds_ or [])


def apply_holds(world, holds_):
    """[thread, kind, nth, delay] or [thread, kind, nth, max delay, other thread, other kind] = paused until the other thread has
    passed a point of that kind (or the max delay is over)"""
    def nm(t):
        return f"{world.role}_psm_thread" if t == "PSM" else t
    for h in holds_ or []:
        t, k, n, d = h[:4]
        if len(h) == 6:
            world.sched.hold(nm(t), k, n, ("until", nm(h[4]), h[5]), d)
        else:
            world.sched.hold(nm(t), k, n, lambda: False, d)

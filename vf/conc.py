"""Schedule strategies shared by the concurrency checks.

A schedule is a list of small integers consumed one per scheduling point as an
index into the enabled-thread list (current thread first): 0 = keep running,
k > 0 = switch to the k-th other enabled thread.  After the list is exhausted
the scheduler completes the run with its fair policy."""
from hypothesis import strategies as st


def _walk(p_num, length):
    # switch with probability p_num/100
    weights = [0] * (100 - p_num) + [1, 2, 3] * max(1, p_num // 3)
    return st.lists(st.sampled_from(weights), min_size=length // 4, max_size=length)


@st.composite
def pct(draw, length, depth=3, nthreads=5):
    """PCT-like: run one thread until a change point, then force a switch; d-1 change points"""
    k = draw(st.integers(1, depth))
    pts = sorted(draw(st.lists(st.integers(0, length - 1), min_size=k, max_size=k, unique=True)))
    out = [0] * length
    for p in pts:
        out[p] = draw(st.integers(1, nthreads))
    # an initial choice of who starts
    out[0] = draw(st.integers(0, nthreads))
    return out


def schedules(length=300):
    return st.one_of(
        st.just([]),                         # purely fair
        _walk(2, length), _walk(10, length), _walk(50, length),
        pct(length), pct(length // 3),
    )


def sched_features(sched, w):
    f = set()
    if sched:
        f.add("generated-prefix")
    if any(sched):
        f.add("prefix-with-switch")
    if w is not None:
        if w.sched.line_switches:
            f.add("preempted-at-source-line")
        if w.sched.switches:
            f.add("context-switches")
    return f

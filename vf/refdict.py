"""Vendored reference dictionaries (ref/*.json) and helpers."""
import json
import os

from . import common

_ROWS = None
_BYCLS = None
_BYKEY = None


def rows():
    global _ROWS, _BYCLS, _BYKEY
    if _ROWS is None:
        with open(os.path.join(common.VERIF, "ref", "avp_dictionary.json")) as f:
            _ROWS = json.load(f)
        _BYCLS = {r["cls"]: r for r in _ROWS}
        _BYKEY = {(r["vendor"], r["code"]): r for r in _ROWS}
    return _ROWS


def by_cls(name):
    rows()
    return _BYCLS[name]


def by_key(vendor, code):
    rows()
    return _BYKEY.get((vendor, code))


def all_classes():
    """Import every module under bromelia and return {name: class} of every
    direct DiameterAVP subclass (last definition wins, as in the loader)."""
    common.bootstrap()
    import importlib
    import pkgutil
    import bromelia
    for m in pkgutil.walk_packages(bromelia.__path__, "bromelia."):
        importlib.import_module(m.name)
    from bromelia.base import DiameterAVP
    out = {}
    for c in DiameterAVP.__subclasses__():
        out[c.__name__] = c
    return out


_CLASSES = None


def cls_obj(name):
    global _CLASSES
    if _CLASSES is None:
        _CLASSES = all_classes()
    return _CLASSES[name]

"""Independent RFC 6733 encoder and strict decoder.  Shares no code with
bromelia: struct / int arithmetic / socket.inet_pton only."""
import datetime
import socket
import struct


class RefDecodeError(Exception):
    pass


# ---------------------------------------------------------------- encoders
def enc_avp(code, flags, vendor, data):
    """code:int flags:int(0..255) vendor:int|None data:bytes -> bytes.
    Vendor-ID field present iff flag bit 0x80."""
    assert (vendor is not None) == bool(flags & 0x80), (flags, vendor)
    hdr = 12 if vendor is not None else 8
    out = struct.pack(">IB", code, flags) + (hdr + len(data)).to_bytes(3, "big")
    if vendor is not None:
        out += struct.pack(">I", vendor)
    out += data
    out += b"\x00" * (-len(data) % 4)
    return out


def enc_msg(version, flags, cmd, app, hbh, e2e, avps):
    """avps: list of already encoded AVP byte strings."""
    body = b"".join(avps)
    total = 20 + len(body)
    return (struct.pack(">B", version) + total.to_bytes(3, "big") + struct.pack(">B", flags) +
            cmd.to_bytes(3, "big") + struct.pack(">III", app, hbh, e2e) + body)


def ref_u32(n):
    return struct.pack(">I", n)


def ref_u64(n):
    return struct.pack(">Q", n)


def ref_i32(n):
    return struct.pack(">i", n)


def ref_time(dt):
    """naive datetime -> 4 bytes: whole seconds since 1900-01-01T00:00:00."""
    delta = dt - datetime.datetime(1900, 1, 1)
    secs = delta.days * 86400 + delta.seconds
    return struct.pack(">I", secs)


def ref_addr(literal):
    """IPv4/IPv6 literal -> family(2) + packed."""
    try:
        return b"\x00\x01" + socket.inet_pton(socket.AF_INET, literal)
    except OSError:
        return b"\x00\x02" + socket.inet_pton(socket.AF_INET6, literal)


def ref_tbcd(s):
    out = []
    for i in range(0, len(s) - 1, 2):
        out.append(s[i + 1] + s[i])
    if len(s) % 2:
        out.append("f" + s[-1])
    return "".join(out)


# ---------------------------------------------------------------- strict decoder
def dec_avps(buf):
    """-> list of dict(code, flags, vendor, data, raw).  Strict: lengths must be
    consistent, padding must be present (content of padding is reported)."""
    out = []
    i = 0
    n = len(buf)
    while i < n:
        if n - i < 8:
            raise RefDecodeError(f"AVP header truncated at {i}")
        code, flags = struct.unpack_from(">IB", buf, i)
        length = int.from_bytes(buf[i + 5:i + 8], "big")
        hdr = 12 if flags & 0x80 else 8
        if length < hdr:
            raise RefDecodeError(f"AVP length {length} < header {hdr} at {i}")
        if i + length > n:
            raise RefDecodeError(f"AVP length {length} overruns buffer at {i}")
        vendor = struct.unpack_from(">I", buf, i + 8)[0] if flags & 0x80 else None
        data = buf[i + hdr:i + length]
        pad = -length % 4
        if i + length + pad > n:
            raise RefDecodeError(f"AVP padding missing at {i}")
        padding = buf[i + length:i + length + pad]
        out.append(dict(code=code, flags=flags, vendor=vendor, data=bytes(data), padding=bytes(padding),
                        raw=bytes(buf[i:i + length + pad])))
        i += length + pad
    return out


def dec_stream(buf, strict_tail=True):
    """-> list of dict(version, length, flags, cmd, app, hbh, e2e, avps, raw)."""
    msgs = []
    i = 0
    n = len(buf)
    while i < n:
        if n - i < 20:
            if strict_tail:
                raise RefDecodeError(f"message header truncated at {i}")
            break
        version = buf[i]
        length = int.from_bytes(buf[i + 1:i + 4], "big")
        flags = buf[i + 4]
        cmd = int.from_bytes(buf[i + 5:i + 8], "big")
        app, hbh, e2e = struct.unpack_from(">III", buf, i + 8)
        if length < 20 or length % 4:
            raise RefDecodeError(f"bad message length {length} at {i}")
        if i + length > n:
            if strict_tail:
                raise RefDecodeError(f"message length {length} overruns buffer at {i}")
            break
        avps = dec_avps(buf[i + 20:i + length])
        msgs.append(dict(version=version, length=length, flags=flags, cmd=cmd, app=app, hbh=hbh, e2e=e2e,
                         avps=avps, raw=bytes(buf[i:i + length])))
        i += length
    return msgs


def find_avp(avps, code, vendor=None):
    return [a for a in avps if a["code"] == code and a["vendor"] == vendor]

"""Mid-call concurrency for functions the statements treat as pure (classification, codecs, typed accessors): a value must not
depend on what another thread is doing, nor on what was computed before.

Scenario (k, n): after a warm-up thread has run items 0..k-1 of a workload (so that whatever the library remembers between calls -
last-value caches, scratch buffers, tables - holds the values of *earlier* items), thread t0 starts item k and is parked at its
n-th library source line for half a virtual second; meanwhile thread t1 runs the whole workload *starting with item k* (the item t0
is in the middle of), then t0 finishes item k, and finally a third thread runs the whole workload again (state left
behind by the race must not poison later calls).  Every result of every thread is compared with reference values computed
without the library.

A child interpreter runs the scenarios (k, n) for one k and a list of n, in order, and stops at the first wrong value; the case
record is (workload, k, [n...]) - replayed in a fresh interpreter.

  python -m vf.midcall <workload> <k> <n,n,n...>   -> "@@" + JSON
"""
import datetime
import json
import os
import socket
import struct
import subprocess
import sys

VERIF = os.path.dirname(os.path.dirname(os.path.abspath(__file__)))

# neighbours differ in family / length / parity so that a value carried over from the previous item is always wrong
C17_CODES = [2001, 5012, 1001, 3004, 4181, 2002, 5420, 3010, 999, 4001, 6001, 5999]
C18_STRINGS = ["5521993082672", "4915112345678", "12", "33612345678", "123", "9081726354", "0", "55999000000001", "8613800138000", "447700900123"]
C20_INSTANTS = [(1970, 1, 1, 0, 0, 0), (2021, 3, 14, 1, 59, 26), (2021, 3, 14, 1, 59, 26), (1999, 12, 31, 23, 59, 59), (2021, 3, 14, 1, 59, 27),
                (2036, 2, 7, 6, 28, 15), (1900, 1, 1, 0, 0, 1), (2021, 3, 14, 1, 59, 26)]
C20_ADDRS = ["10.1.2.3", "2001:db8::1", "192.168.0.1", "::ffff:10.0.0.1", "10.1.2.4", "fe80::1"]
C20_WORDS = [(0x00000001, 0), (0x80000000, 31), (0x00010000, 16), (0x00000100, 8)]


def items(name):
    """-> list of zero-argument callables returning JSON-able values"""
    if name == "c17":
        from bromelia import utils
        from bromelia.base import DiameterAnswer
        from bromelia.avps import ResultCodeAVP
        ints = ["is_result_code_family_1xxx", "is_result_code_family_2xxx", "is_result_code_family_3xxx", "is_result_code_family_4xxx",
                "is_result_code_family_5xxx"]
        anss = ["is_1xxx_informational", "is_2xxx_success", "is_3xxx_failure", "is_4xxx_failure", "is_5xxx_failure"]

        def mk(n):
            # one answer object per code, built before the threads start and shared by them (the predicates only read it)
            a = DiameterAnswer(command_code=257, application_id=0, avps=[ResultCodeAVP(n)])

            def f():
                return [[bool(getattr(utils, p)(n)) for p in ints], [bool(getattr(utils, p)(a)) for p in anss]]
            return f
        return [mk(n) for n in C17_CODES]
    if name == "c18":
        from bromelia import utils
        from bromelia.avps import MsisdnAVP, StnSrAVP

        def mk(s):
            def f():
                e = utils.encode_to_tbcd(s)
                return [e, utils.decode_from_tbcd(e) if isinstance(e, str) else None, MsisdnAVP(int(s)).data.hex(), MsisdnAVP(s).data.hex(),
                        StnSrAVP(s).data.hex()]
            return f
        return [mk(s) for s in C18_STRINGS]
    if name == "c20":
        from bromelia.avps import EventTimestampAVP, HostIpAddressAVP, UlrFlagsAVP
        out = []

        def mk_t(t):
            def f():
                return ["time", EventTimestampAVP(datetime.datetime(*t)).data.hex()]
            return f

        def mk_a(lit):
            def f():
                a = HostIpAddressAVP(lit)
                return ["addr", a.data.hex(), bool(a.is_ipv4()), bool(a.is_ipv6()), str(a.get_ip_address())]
            return f

        def mk_w(w, i):
            def f():
                a = UlrFlagsAVP(w)
                r = [bool(a.is_bit_set(j)) for j in (0, 8, 16, 31)]
                a.unset_bit(i)
                return ["bits", r, a.data.hex()]
            return f
        for j in range(max(len(C20_INSTANTS), len(C20_ADDRS))):
            if j < len(C20_INSTANTS):
                out.append(mk_t(C20_INSTANTS[j]))
            if j < len(C20_ADDRS):
                out.append(mk_a(C20_ADDRS[j]))
            if j < len(C20_WORDS):
                out.append(mk_w(*C20_WORDS[j]))
        return out
    if name == "c01":
        # building and serialising messages (metamorphic oracle: the bytes a thread gets are the bytes the same construction gives alone)
        import datetime as _dt
        from bromelia.base import DiameterMessage, DiameterHeader, DiameterAnswer
        from bromelia.avps import (OriginHostAVP, OriginRealmAVP, SessionIdAVP, UserNameAVP, ResultCodeAVP, EventTimestampAVP, HostIpAddressAVP,
                                   VendorSpecificApplicationIdAVP, VendorIdAVP, AuthApplicationIdAVP, ProxyInfoAVP, ProxyHostAVP, ProxyStateAVP)

        def mk(k):
            def f():
                hdr = DiameterHeader(flags=0x80 if k % 2 else 0x40, command_code=316 + k, application_id=16777251, hop_by_hop=100 + k, end_to_end=200 + k)
                avps = [SessionIdAVP(f"s;{k};{k}".encode()), OriginHostAVP("host%d.example" % k), OriginRealmAVP("realm%d" % k),
                        UserNameAVP("u" * (3 * k + 1)), EventTimestampAVP(_dt.datetime(2020 + k, 1 + k, 2, 3, 4, 5 + k)), HostIpAddressAVP(f"10.0.{k}.1"),
                        VendorSpecificApplicationIdAVP([VendorIdAVP(10415), AuthApplicationIdAVP(16777251 + k)]),
                        ProxyInfoAVP([ProxyHostAVP("p%d.example" % k), ProxyStateAVP(b"st" * (k + 1))]), ResultCodeAVP(2001 + k)]
                msg = DiameterMessage(hdr, avps[:4])
                for a in avps[4:]:
                    msg.append(a)
                return [msg.dump().hex(), bytes(msg).hex(), msg.header.get_length()]
            return f
        return [mk(k) for k in range(5)]
    if name == "c02":
        from bromelia.base import DiameterMessage
        from . import firstuse
        from . import refcodec as rc
        base = firstuse.c02_wire()
        wires = [base, base + base, rc.enc_msg(1, 0x40, 318, 16777251, 7, 8, [rc.enc_avp(268, 0x40, None, (5012).to_bytes(4, "big")),
                                                                           rc.enc_avp(264, 0x40, None, b"other.example")]),
                 rc.enc_msg(1, 0x80, 280, 0, 9, 10, [rc.enc_avp(264, 0x40, None, b"h"), rc.enc_avp(296, 0x40, None, b"r")])]

        def mk(w):
            def f():
                msgs = DiameterMessage.load(w)
                return [[type(a).__name__ for a in m.avps] for m in msgs] + [b"".join(m.dump() for m in msgs).hex() == w.hex(), len(msgs)]
            return f
        return [mk(w) for w in wires]
    raise ValueError(name)


METAMORPHIC = {"c01", "c02"}          # expected values = what the same item returns when it runs alone, before any other thread exists


def _tbcd(s):
    s2 = s + ("f" if len(s) % 2 else "")
    return "".join(s2[i + 1] + s2[i] for i in range(0, len(s2), 2))


def expected(name):
    """reference values, computed without the library"""
    if name == "c17":
        return [[[n // 1000 == k and n % 1000 != 0 for k in range(1, 6)]] * 2 for n in C17_CODES]
    if name == "c18":
        return [[_tbcd(s), s, _tbcd(s), _tbcd(s), _tbcd(s)] for s in C18_STRINGS]
    if name == "c20":
        out = []
        for j in range(max(len(C20_INSTANTS), len(C20_ADDRS))):
            if j < len(C20_INSTANTS):
                t = C20_INSTANTS[j]
                days = datetime.date(t[0], t[1], t[2]).toordinal() - datetime.date(1900, 1, 1).toordinal()
                out.append(["time", struct.pack(">I", days * 86400 + t[3] * 3600 + t[4] * 60 + t[5]).hex()])
            if j < len(C20_ADDRS):
                lit = C20_ADDRS[j]
                v6 = ":" in lit
                packed = socket.inet_pton(socket.AF_INET6 if v6 else socket.AF_INET, lit)
                back = socket.inet_ntop(socket.AF_INET6 if v6 else socket.AF_INET, packed)
                out.append(["addr", (b"\x00\x02" if v6 else b"\x00\x01").hex() + packed.hex(), not v6, v6, back])
            if j < len(C20_WORDS):
                w, i = C20_WORDS[j]
                out.append(["bits", [bool(w >> b & 1) for b in (0, 8, 16, 31)], struct.pack(">I", w & ~(1 << i)).hex()])
        return out
    raise ValueError(name)


def _norm(name, got, want):
    """addresses are compared as addresses (the textual form may differ in case / zero compression)"""
    if name == "c20" and isinstance(got, list) and got and got[0] == "addr" and len(got) == 5:
        try:
            fam = socket.AF_INET6 if ":" in got[4] else socket.AF_INET
            got = got[:4] + [socket.inet_ntop(fam, socket.inet_pton(fam, got[4]))]
        except OSError:
            pass
    return got


def child(name, k, ns):
    sys.path.insert(0, VERIF)
    from vf import common
    common.bootstrap()
    from vf.dsched import Scheduler, Net, Patch
    sched = Scheduler(choices=None, line_preempt=False, trace_prefix=common.REPO.rstrip("/") + "/bromelia/", max_steps=3000000, line_holds=True)
    net = Net(sched)
    want = expected(name) if name not in METAMORPHIC else None
    out = {"k": k, "ran": [], "bad": None, "error": None, "holds_taken": 0}
    with Patch(sched, net):
        sched.register_driver()
        try:
            its = items(name)
            N = len(its)
            if want is None:
                alone = []

                def ref_run():
                    for i in range(N):
                        alone.append(its[i]())
                rt = sched.spawn(ref_run, "ref")
                sched.run_until(lambda: rt.state == "finished", 60.0)
                if rt.exc is not None or len(alone) != N:
                    raise RuntimeError(f"workload {name} fails when run alone: {rt.exc!r}")
                want = alone

            def runner(tag, order, res):
                def body():
                    for i in order:
                        try:
                            res.append((tag, i, its[i]()))
                        except BaseException as e:          # library errors derive from BaseException
                            if type(e).__name__ == "Killed":
                                raise
                            res.append((tag, i, f"raised {type(e).__name__}: {e}"))
                return body
            for si, n in enumerate(ns):
                res = []
                w = sched.spawn(runner("warm", list(range(k)), res), f"w{si}")
                sched.run_until(lambda: w.state == "finished", 60.0)
                before = sched.holds_taken
                sched.hold(f"a{si}", "line:*", n, lambda: False, 0.5)
                t0 = sched.spawn(runner("t0", [k], res), f"a{si}")
                sched.run_until(lambda: sched.holds_taken > before or t0.state == "finished", 60.0)
                parked = sched.holds_taken > before
                t1 = sched.spawn(runner("t1", [(k + j) % N for j in range(N)], res), f"b{si}")
                sched.run_until(lambda: t0.state == "finished" and t1.state == "finished", 120.0)
                t2 = sched.spawn(runner("after", list(range(N)), res), f"c{si}")
                sched.run_until(lambda: t2.state == "finished", 60.0)
                out["ran"].append([n, parked])
                out["lines_t0"] = sched.visits.get((f"a{si}", "line:*"), 0)
                out["holds_taken"] += int(parked)
                if not all(t.state == "finished" for t in (w, t0, t1, t2)):
                    out["bad"] = {"n": n, "thread": "?", "item": None, "got": "a thread never finished", "want": ""}
                    break
                for tag, i, got in res:
                    if _norm(name, got, want[i]) != want[i]:
                        out["bad"] = {"n": n, "thread": tag, "item": i, "got": got, "want": want[i], "parked": parked}
                        break
                if out["bad"] or not parked:
                    break               # t0 has fewer than n lines in item k: larger n are the same scenario
        except Exception as e:
            out["error"] = repr(e)
        finally:
            sched.kill_all()
    print("@@" + json.dumps(out))


def run_child(args):
    name, k, ns, repo = args
    env = dict(os.environ, VERIF_REPO=repo, PYTHONHASHSEED="0", PYTHONDONTWRITEBYTECODE="1")
    p = subprocess.run([sys.executable, "-m", "vf.midcall", name, str(k), ",".join(map(str, ns))], cwd=VERIF, env=env, capture_output=True,
                       text=True, timeout=900)
    line = next((l for l in p.stdout.splitlines() if l.startswith("@@")), None)
    if line is None:
        return {"k": k, "ns": ns, "error": f"child failed (exit {p.returncode}): {p.stderr[-400:]}"}
    d = json.loads(line[2:])
    d["ns"] = ns
    return d


def sweep(col, name, clause, ks, nmax, chunk=12, step=1):
    """all scenarios (k, n) for k in ks and n = 1, 1+step, ... <= nmax (cut where t0 has run out of lines), recorded in `col`"""
    from . import common
    from .common import V
    jobs = []
    for k in ks:
        ns = list(range(1, nmax + 1, step))
        for lo in range(0, len(ns), chunk):
            jobs.append((name, k, ns[lo:lo + chunk], common.REPO))
    for r in common.pmap(run_child, jobs):
        if r.get("error"):
            raise RuntimeError(f"mid-call harness: {r['error']}")
        for n, parked in r["ran"]:
            case = {"kind": "mid-call", "workload": name, "k": r["k"], "ns": [n]}
            vs = []
            b = r.get("bad")
            if b and b["n"] == n:
                case["ns"] = [m for m, _ in r["ran"]]          # everything this interpreter had run so far
                where = {"t0": "the-parked-thread", "t1": "the-other-thread", "after": "a-later-thread", "warm": "warm-up", "?": "stuck"}[b["thread"]]
                vs.append(V(clause, f"mid-call/{name}/wrong-result-in-{where}",
                            f"t0 parked at line {n} of item {r['k']}: thread {b['thread']} item {b['item']}: got {str(b['got'])[:200]}, want {str(b['want'])[:200]}"))
            col.record(case, vs, nontrivial=bool(parked), classes=["mid-call-concurrent"] + (["mid-call-parked"] if parked else []))


def run_case(case):
    from . import common
    from .common import V
    r = run_child((case["workload"], case["k"], case["ns"], common.REPO))
    if r.get("error"):
        raise RuntimeError(r["error"])
    b = r.get("bad")
    if not b:
        return []
    where = {"t0": "the-parked-thread", "t1": "the-other-thread", "after": "a-later-thread", "warm": "warm-up", "?": "stuck"}[b["thread"]]
    return [V("a value does not depend on what another thread is computing", f"mid-call/{case['workload']}/wrong-result-in-{where}",
              f"t0 parked at line {b['n']} of item {case['k']}: thread {b['thread']} item {b['item']}: got {str(b['got'])[:200]}, want {str(b['want'])[:200]}")]


if __name__ == "__main__":
    child(sys.argv[1], int(sys.argv[2]), [int(x) for x in sys.argv[3].split(",")])

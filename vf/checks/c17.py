"""C17 - result-code class predicates agree with the numeric family.

Generator : all codes 0..65535 exhaustively (both tiers), boundary 32-bit
            values, Hypothesis-drawn 32-bit values; through the five integer
            predicates and the five answer-object predicates (real
            DiameterAnswer carrying ResultCodeAVP(n), built and decoded).
Oracle    : n % 1000 != 0  =>  predicate_k(n) <=> n // 1000 == k (k=1..5);
            at most one predicate true; both forms agree.
Non-trivial: n outside x001..x007 (where the bit-mask and the range coincide).
"""
from hypothesis import strategies as st

from .. import common
from ..common import V, Collector

PID = "C17"
RULE = ("codes enumerated exhaustively over 0..65535 plus boundary/random 32-bit values; each code is evaluated through "
        "10 predicates; non-trivial = code is not a multiple of 1000 and lies outside x001..x007 of families 1..5 "
        "(the only region where a bit-mask and a range test agree trivially); distinct by the code")

NAMES_INT = ["is_result_code_family_1xxx", "is_result_code_family_2xxx", "is_result_code_family_3xxx",
             "is_result_code_family_4xxx", "is_result_code_family_5xxx"]
NAMES_ANS = ["is_1xxx_informational", "is_2xxx_success", "is_3xxx_failure", "is_4xxx_failure", "is_5xxx_failure"]


def trivial(n):
    return n % 1000 == 0 or (1 <= n // 1000 <= 5 and 1 <= n % 1000 <= 7)


def check_history(codes, e_bit):
    """one answer object whose Result-Code is changed in place between looks: every look must classify the current value"""
    common.bootstrap()
    from bromelia import utils
    from bromelia.base import DiameterAnswer
    from bromelia.avps import ResultCodeAVP
    vs = []
    try:
        ans = DiameterAnswer(command_code=257, application_id=0, avps=[ResultCodeAVP(codes[0])])
        if e_bit:
            ans.header.set_error_bit(True)
        for i, n in enumerate(codes):
            if i:
                ans.result_code_avp.data = n.to_bytes(4, "big")
            if n % 1000 == 0:
                continue
            raw = [getattr(utils, f)(ans) for f in NAMES_ANS]
            got = [bool(r) for r in raw]
            want = [n // 1000 == k for k in range(1, 6)]
            if got != want:
                k = next(k for k in range(5) if got[k] != want[k])
                vs.append(V(f"predicate_{k+1}xxx(n) <=> n//1000 == {k+1} - for the value the answer carries now",
                            f"answer/history/{k+1}xxx/{'false-negative' if want[k] else 'false-positive'}/look{min(i, 1)}",
                            f"codes {codes} (changed in place), look {i}: n={n} predicates {got}"))
                break
    except (Exception,) + common.lib_errors() as e:
        return [V("answer predicate raises", f"answer-raises/{type(e).__name__}", f"history {codes}: {e!r}")]
    return vs


def check_code(n, via):
    """via: 'int' | 'answer' | 'decoded' | 'answer-e' (header E bit set) | 'decoded-e'"""
    common.bootstrap()
    from bromelia import utils
    if n % 1000 == 0:
        return []          # family undefined by the statement
    fam = n // 1000
    vs = []
    if via == "int":
        try:
            got = [bool(getattr(utils, f)(n)) for f in NAMES_INT]
        except Exception as e:
            return [V("integer predicate raises", f"int-raises/{type(e).__name__}", f"n={n}: {e!r}")]
    else:
        from bromelia.base import DiameterAnswer, DiameterMessage
        from bromelia.avps import ResultCodeAVP
        try:
            avps = [ResultCodeAVP(n)]
            if "+exp" in via:
                # the answer also carries an Experimental-Result of another family: the predicates speak about the Result-Code
                from bromelia.avps import ExperimentalResultAVP, ExperimentalResultCodeAVP, VendorIdAVP
                other = {1: 5420, 2: 5420, 3: 2001, 4: 2001, 5: 2001}.get(fam, 5001)
                avps.append(ExperimentalResultAVP([VendorIdAVP(10415), ExperimentalResultCodeAVP(other)]))
            if "+decoy" in via:
                # look-alikes around the Result-Code: the same AVP code in a vendor's own code space (V flag), a top-level AVP with the
                # code of Experimental-Result-Code, an unknown AVP whose data is a result code - each holding a code of another family;
                # and ordinary AVPs in front, so that the Result-Code is not the first AVP of the answer
                from bromelia.base import DiameterAVP
                from bromelia.avps import OriginHostAVP, OriginRealmAVP
                other = {1: 5012, 2: 5012, 3: 2001, 4: 2001, 5: 2001}.get(fam, 5012).to_bytes(4, "big")
                twin = lambda: DiameterAVP(code=268, vendor_id=9, flags=0x80, data=other)
                exp = lambda: DiameterAVP(code=298, vendor_id=10415, flags=0x80, data=other)
                unk = lambda: DiameterAVP(code=99268, flags=0x00, data=other)
                base = [OriginHostAVP("hss.example"), OriginRealmAVP("example")]
                avps = {"a": [twin()] + base + avps, "b": base + avps + [twin()], "c": [exp(), unk()] + avps + [twin()],
                        "d": [twin(), twin()] + avps + base}[via[-1]]
            ans = DiameterAnswer(command_code=257, application_id=0, avps=avps)
            if via.endswith("-e"):
                ans.header.set_error_bit(True)        # the family of a code does not depend on the header's E bit
            if via.startswith("decoded"):
                ans = DiameterMessage.load(ans.dump())[0]
            raw = [getattr(utils, f)(ans) for f in NAMES_ANS]
        except (Exception,) + common.lib_errors() as e:
            return [V("answer predicate raises", f"answer-raises/{type(e).__name__}", f"n={n}: {e!r}")]
        if any(r is None for r in raw):
            return [V("answer predicate gives no verdict although a Result-Code is present", "answer-none", f"n={n}: {raw}")]
        got = [bool(r) for r in raw]
    want = [fam == k for k in range(1, 6)]
    if sum(got) > 1:
        vs.append(V("at most one family predicate holds", f"{'int' if via == 'int' else 'answer'}/multiple-true",
                    f"n={n} via {via}: {got}"))
    if got != want:
        for k in range(5):
            if got[k] != want[k]:
                kind = "false-negative" if want[k] else "false-positive"
                vs.append(V(f"predicate_{k+1}xxx(n) <=> n//1000 == {k+1}",
                            f"{'int' if via == 'int' else 'answer'}/{k+1}xxx/{kind}",
                            f"n={n} via {via}: predicate says {got[k]}, family is {fam}"))
    return vs


def run_case(case):
    if case.get("kind") == "mid-call":
        from .. import midcall
        return midcall.run_case(case)
    if "hist" in case:
        return check_history(case["hist"], case.get("e", False))
    return check_code(case["n"], case["via"])


def _sweep(args):
    lo, hi = args
    col = Collector(PID, RULE)
    nt = 0
    n_eval = 0
    for n in range(lo, hi):
        for via in ("int", "answer", "answer-e"):
            n_eval += 1
            for v in check_code(n, via):
                col.violation({"n": n, "via": via}, v)
        if not trivial(n):
            nt += 1
    col.count_enum(n_eval, nt, {"sweep-codes": hi - lo})
    return col


def main(ctx):
    import multiprocessing
    col = Collector(PID, RULE)
    for path, rec in common.load_replays(PID):
        col.record(rec["case"], run_case(rec["case"]), nontrivial=True, classes=["replay"])
    jobs = [(lo, min(lo + 2048, 65536)) for lo in range(0, 65536, 2048)]
    for part in common.pmap(_sweep, jobs):
        col.merge(part)
    col.exhaustive = True
    col.extra["exhaustive_scope"] = "all codes 0..65535 through integer and answer-object predicates"
    col.extra["multiples_of_1000_not_judged"] = 66
    col.samples = [{"n": 5012, "via": "answer", "family": 5}, {"n": 3008, "via": "int", "family": 3},
                   {"n": 4181, "via": "decoded", "family": 4}]

    bound = [2**16, 2**16 + 1, 2**24 + 5012, 2**31 - 1, 2**31, 2**31 + 3001, 2**32 - 1, 2**32 - 1000 + 1,
             0x0BB8 | 0x10000, 0x1388 | 0x20000, 69999, 70001, 1001 + 2**20]
    n_rand = 3000 if ctx.quick else 200000
    codes = st.one_of(st.sampled_from(bound), st.integers(0, 2**32 - 1), st.integers(900, 6100))
    cases = st.one_of(
        st.builds(lambda n, via: {"n": n, "via": via}, codes, st.sampled_from(["int", "answer", "decoded", "answer-e", "decoded-e", "answer+exp", "decoded+exp",
                                                                                    "answer+decoy-a", "answer+decoy-b", "answer+decoy-c", "answer+decoy-d",
                                                                                    "decoded+decoy-a", "decoded+decoy-b", "decoded+decoy-c", "decoded+decoy-d"])),
        st.builds(lambda h, e: {"hist": h, "e": e}, st.lists(st.one_of(st.integers(900, 6100), st.sampled_from([2001, 5012, 3002, 4001, 1001])),
                                                             min_size=2, max_size=4), st.booleans()))

    def body(case):
        if "hist" in case:
            col.record(case, run_case(case), nontrivial=len({n // 1000 for n in case["hist"]}) > 1, classes=["history-in-place-change"])
            return
        col.record(case, run_case(case), nontrivial=not trivial(case["n"]),
                   classes=[case["via"], "n>65535" if case["n"] > 65535 else "n<=65535"])

    common.hyp_collect(cases, body, n_rand, ctx.seed)
    # the very first calls of a process, made by two threads at once (fresh interpreter per scenario)
    list(common.first_use_sweep(col, "c17", "predicate_k(n) <=> n//1000 == k - from the first call of the process, in every thread"))
    # ... and at any later time: one thread parked at each source line of a classification while another classifies (vf/midcall.py)
    from .. import midcall
    midcall.sweep(col, "c17", "predicate_k(n) <=> n//1000 == k - whatever another thread is classifying at the same time",
                  ks=[1, 4] if ctx.quick else list(range(1, len(midcall.C17_CODES))), nmax=90)
    ctx.required_classes = ["mid-call-parked", "first-use-parked-mid-call", "int", "answer", "decoded", "n>65535", "answer-e", "decoded-e", "history-in-place-change", "answer+exp", "decoded+exp", "answer+decoy-a", "decoded+decoy-c"]
    ctx.assumptions = ["multiples of 1000 and answers without a Result-Code AVP are outside the statement",
                       "answer-object predicates are exercised on DiameterAnswer objects holding ResultCodeAVP(n), built and decoded"]
    return col

"""C06 - the peer state machine follows RFC 6733 and opens only for the configured peer.
(also the runner for C07 - base-protocol answers echo the identifiers of their request)

Generator : event sequences over {connect ack/nack, valid/invalid CER, CEA, DWR, DWA,
            DPR, DPA, application request/answer, misaddressed request, local
            stop, peer FIN/RST, idle period, restart} for client and server roles
            and 0..2 configured applications, applied to the real node in the
            controlled world; after each event the node runs (fair schedule,
            virtual time) until it settles.
Oracle    : a nondeterministic reference transition model written from RFC 6733
            5.6 and the property statement, refined by the observed state after
            every event; deterministic rows also fix the base-protocol output
            (exactly one CER / CEA / DWA / DPA / DPR); global invariants after
            every event (state machine thread alive and not raised, delivery only
            while Open, Closed => transport released).
"""
from hypothesis import strategies as st

from .. import common
from .. import refcodec as rc
from ..common import V, Collector
from ..world import (World, LOCAL, PEER, peer_cer, peer_cea, peer_dwr, peer_dwa, peer_dpr, peer_dpa, app_request, app_answer)

PID = "C06"
RULE = ("event sequences (<= 14 events) on a live node in the controlled world, compared after every event with a reference "
        "transition model; non-trivial = the sequence visits >= 3 distinct states or contains an event a conformant peer never "
        "sends in that state; distinct by SHA-1 of the case record")

IDS = [0, 1, 2**31 - 1, 2**31, 2**32 - 1, 0x01020304, 0xDEADBEEF, 77]
NAMES = {"Closed": "Closed", "WaitConnAck": "Wait-Conn-Ack", "WaitICEA": "Wait-I-CEA", "Closing": "Closing"}

BASE_EVENTS = ["ack", "nack", "cer", "cer-wrong-host", "cer-wrong-realm", "cer-missing-avp", "cer-extra-flag",
               "cea", "cea-wrong-host", "cea-wrong-realm", "cea-missing-avp", "cea-extra-flag",
               "dwr", "dwr-wrong-host", "dwr-pair", "dwa", "dpr", "dpr-wrong-host", "dpr-busy", "dpa",
               "app-req", "app-ans", "misaddressed-req", "local-stop", "fin", "rst", "idle", "restart", "app-req-pair-dwr", "app-req-binary",
               "dwr-retx", "cer-retx", "local-req", "app-ans-echo", "dpr-pair-app", "dpa-then-dwr"]
UNEXPECTED = {"cer-wrong-host", "cer-wrong-realm", "cer-missing-avp", "cer-extra-flag", "cea-wrong-host", "cea-wrong-realm",
              "cea-missing-avp", "cea-extra-flag", "dwr-wrong-host", "dpr-wrong-host", "misaddressed-req"}


GUIDE = {
    # generator-side guess of the state -> events worth generating there (the check itself re-decides applicability)
    "WCA": ["ack", "ack", "ack", "nack"],
    "WICEA": ["cea", "cea", "cea", "cea-wrong-host", "cea-wrong-realm", "cea-missing-avp", "cea-extra-flag", "dwr", "dpr", "dpa", "dwa",
              "app-req", "app-ans", "fin", "rst"],
    "ClosedS": ["cer", "cer", "cer", "cer", "cer-retx", "cer-wrong-host", "cer-wrong-realm", "cer-missing-avp", "cer-extra-flag", "dwr", "dpr", "app-req",
                "cea", "dwa", "dpa", "fin", "rst"],
    "Open": ["local-req", "local-req", "app-ans-echo", "app-ans-echo", "app-ans-echo", "dpr-pair-app", "dwr", "dwr", "dwr-retx", "dwr-retx", "cer-retx", "dwr-pair", "dwr-wrong-host", "dwa", "dpr", "dpr-wrong-host", "dpr-busy", "dpa", "app-req", "app-req", "app-req-binary", "app-ans",
             "app-req-pair-dwr", "misaddressed-req", "local-stop", "fin", "rst", "idle", "cer", "cer-wrong-host", "cea", "cea-wrong-host"],
    "Closing": ["dpa", "dpa", "dpa", "dpa-then-dwr", "fin", "rst", "dwr", "app-req", "app-ans", "app-ans-echo", "dwa", "dpr", "dpr"],
    "Ended": ["restart"],
}
# Open with a request of the local application outstanding / just answered: the peer's answer (and its duplicate) is likely next
GUIDE["OpenP"] = ["app-ans-echo"] * 12 + GUIDE["Open"]
GUIDE["OpenA"] = ["app-ans-echo"] * 8 + GUIDE["Open"]
GUIDE_NEXT = {
    ("WCA", "ack"): "WICEA", ("WCA", "nack"): "Ended",
    ("WICEA", "cea"): "Open",
    ("ClosedS", "cer"): "Open", ("ClosedS", "fin"): "Ended", ("ClosedS", "rst"): "Ended",
    ("Open", "dpr"): "Ended", ("Open", "local-stop"): "Closing", ("Open", "fin"): "Ended", ("Open", "rst"): "Ended",
    ("Open", "dpr-busy"): "Ended", ("Open", "dpr-wrong-host"): "Ended", ("Open", "dpr-pair-app"): "Ended",
    ("Closing", "dpa"): "Ended", ("Closing", "fin"): "Ended", ("Closing", "rst"): "Ended",
}
for _g in ("OpenP", "OpenA"):
    for (_s, _e), _n in list(GUIDE_NEXT.items()):
        if _s == "Open":
            GUIDE_NEXT[(_g, _e)] = _n
# Closing with a request of the local application still unanswered: the peer's late answer is likely next
GUIDE["ClosingP"] = ["app-ans-echo"] * 6 + GUIDE["Closing"]
GUIDE_NEXT[("OpenP", "local-stop")] = "ClosingP"
for (_s, _e), _n in list(GUIDE_NEXT.items()):
    if _s == "Closing":
        GUIDE_NEXT[("ClosingP", _e)] = _n
GUIDE_NEXT[("Closing", "dpa-then-dwr")] = "Ended"
GUIDE_NEXT[("ClosingP", "dpa-then-dwr")] = "Ended"
GUIDE_NEXT[("Open", "local-req")] = "OpenP"
GUIDE_NEXT[("OpenA", "local-req")] = "OpenP"
GUIDE_NEXT[("OpenP", "app-ans-echo")] = "OpenA"
GUIDE_NEXT[("OpenA", "app-ans-echo")] = "Open"


@st.composite
def cases(draw, base_heavy=False):
    role = draw(st.sampled_from(["client", "server"]))
    napps = draw(st.sampled_from([0, 1, 2]))
    n = draw(st.integers(2, 14))
    g = "WCA" if role == "client" else "ClosedS"
    evs = []
    for _ in range(n):
        pool = GUIDE[g]
        if base_heavy and g in ("Open", "OpenP", "OpenA"):
            pool = ["dwr", "dwr-pair", "dwr-pair", "app-req-pair-dwr", "dpr", "app-req", "local-stop", "local-stop", "cer", "cea", "dwr-retx"]
        if draw(st.integers(0, 9)) == 0:
            pool = BASE_EVENTS                      # now and then an arbitrary event, to exercise the applicability filter
        e = draw(st.sampled_from(pool))
        evs.append({"e": e, "hbh": draw(st.sampled_from(IDS)), "e2e": draw(st.sampled_from(IDS)),
                    "hbh2": draw(st.sampled_from(IDS)), "e2e2": draw(st.sampled_from(IDS))})
        if e == "restart":
            g = "WCA" if role == "client" else "ClosedS"
        elif g == "WICEA" and e not in ("cea", "cea-wrong-host", "cea-wrong-realm", "cea-missing-avp", "cea-extra-flag"):
            g = "Ended"
        else:
            g = GUIDE_NEXT.get((g, e), g)
    return {"role": role, "napps": napps, "events": evs, "backlog": draw(st.sampled_from([0, 0, 3, 16])) if base_heavy else 0}


class Run:
    """applies events, keeps the model, collects violations"""

    def __init__(self, case, w):
        self.case = case
        self.w = w
        self.role = case["role"]
        self.poss = {"Closed"}             # possible model states
        self.started = False
        self.connected = False             # a transport connection exists (client: acked; server: peer connected)
        self.vs = []
        self.visited = set()
        self.requests = []                 # base requests the peer sent that must be answered: (cmd, hbh, e2e, generation)
        self.optional = []                 # potentially re-transmitted (T flag) base requests: answering them is left open
        self.req_log = []                  # both kinds in arrival order: (cmd, hbh, e2e, generation, optional)
        self.peer_sent = []                # every base request the scripted peer has sent: (cmd, hbh, e2e)
        self.generation = 0
        self.delivered_expected = 0
        self.cer_seen = None
        self.consumed = []
        self.n_out = 0                     # messages of the current connection already inspected
        self.out_msgs = []                 # all reference-decoded messages written (across connections)
        self.skipped = 0
        self.applied = []
        self.opened_after_cex = False
        self.expect = {}

    # ----------------------------------------------------------------- helpers
    def viol(self, clause, sig, detail):
        if not any(v.sig == sig for v in self.vs):
            self.vs.append(V(clause, sig, detail))

    def reported(self):
        return self.w.state()

    def name_of(self, s):
        if s == "Open":
            return "I-Open" if self.role == "client" else "R-Open"
        return NAMES[s]

    def settle(self, secs):
        self.w.run(lambda: False, secs)

    def written(self):
        out = []
        for s in self.w.conn_socks():
            try:
                out += rc.dec_stream(bytes(s.outbox), strict_tail=False)
            except rc.RefDecodeError as e:
                self.viol("bytes written are well-formed messages", "output/undecodable", str(e))
        return out

    def count(self, msgs, cmd, request):
        return sum(1 for m in msgs if m["cmd"] == cmd and bool(m["flags"] & 0x80) == request)

    # ----------------------------------------------------------------- events
    def start(self):
        w = self.w
        w.net.connect_policy = "manual"
        w.start(f"app-start-{self.generation}")
        self.started = True
        if self.role == "client":
            self.poss = {"WaitConnAck"}
            w.run(lambda: bool(w.net.pending_connects) and w.state() == "Wait-Conn-Ack", 3.0)
        else:
            self.poss = {"Closed"}
            n = len(w.net.listeners)
            w.run(lambda: len(w.net.listeners) > 0 and w.net.listeners[-1].state == "listening" and
                  w.d._association is not None, 3.0)
            w.net.peer_connect(w.net.listeners[-1])
            w.run(lambda: w.sock is not None and w.d._association.transport is not None and
                  w.sock in w.d._association.transport.selector.get_map(), 3.0)
            self.connected = True

    def _req(self, cmd, hbh, e2e, gen):
        self.requests.append((cmd, hbh, e2e, gen))
        self.req_log.append((cmd, hbh, e2e, gen, False))
        self.peer_sent.append((cmd, hbh, e2e))

    def applicable(self, e):
        p = self.poss
        if e == "restart":
            return p == {"Closed"} and self.terminal()
        if self.terminal():
            return False
        if e in ("ack", "nack"):
            return p == {"WaitConnAck"} and not self.connected
        if p == {"WaitConnAck"}:
            return False                      # nothing can arrive before the connection exists
        if e in ("cer", "cer-wrong-host", "cer-wrong-realm", "cer-missing-avp", "cer-extra-flag", "cer-retx"):
            # CER while the initiator waits (election, unimplemented per the statement) is excluded by construction
            return p <= {"Closed", "Open"} and not (self.role == "client" and p == {"Closed"})
        if e in ("local-stop", "local-req"):
            return p == {"Open"}
        if e == "idle":
            return p == {"Open"}
        return True

    def terminal(self):
        """the connection of this generation has ended: its state machine thread has finished"""
        return self.started and self.ended

    @property
    def ended(self):
        psm = [t for t in self.w.sched.threads if t.name.endswith("_psm_thread")]
        return bool(psm) and psm[-1].state == "finished"

    def apply(self, ev):
        w = self.w
        e = ev["e"]
        hbh, e2e = ev["hbh"], ev["e2e"]
        before = self.written()
        before_delivered = len(self.consumed)
        poss0 = set(self.poss)
        det = None            # deterministic expectation: dict(next=state, out={(cmd, request): n}, delivered=n)
        nxt = None            # nondeterministic: set of states
        settle = 0.6
        sock = w.sock
        if e == "ack":
            w.net.ack(w.net.pending_connects[-1])
            self.connected = True
            det = dict(next="WaitICEA", out={(257, True): 1})
        elif e == "nack":
            w.net.nack(w.net.pending_connects[-1])
            det = dict(next="Closed", out={})
            settle = 2.0
        elif e in ("dwr-retx", "cer-retx"):
            # a potentially re-transmitted request (T flag): it repeats the End-to-End identifier of the previous request of that
            # command (possibly sent over an earlier connection of this node object) under a new Hop-by-Hop identifier
            cmd = 280 if e == "dwr-retx" else 257
            prev = next((r for r in reversed(self.peer_sent) if r[0] == cmd), None)
            e2e_ = prev[2] if prev else e2e
            hbh_ = hbh if not prev or hbh != prev[1] else (hbh ^ 0x00000100)
            w.feed(peer_dwr(hbh_, e2e_, flags=0x90) if cmd == 280 else peer_cer(hbh_, e2e_, flags=0x90))
            self.peer_sent.append((cmd, hbh_, e2e_))
            if poss0 == {"Open"} or (poss0 == {"Closed"} and cmd == 257):
                self.optional.append((cmd, hbh_, e2e_, self.generation))
                self.req_log.append((cmd, hbh_, e2e_, self.generation, True))
                nxt = {"Open"} if poss0 == {"Open"} else {"Closed", "Open"}
                if poss0 == {"Closed"}:
                    self.opened_after_cex = True            # a valid CER of the configured peer: opening on it is legitimate
            elif poss0 == {"WaitICEA"}:
                det = dict(next="Closed", out={})
                settle = 2.0
            elif poss0 == {"Closed"}:
                det = dict(next="Closed", out={(280, False): 0, (257, False): 0})
            else:
                nxt = poss0 | {"Closed"}
        elif e.startswith("cer"):
            kw = {}
            if e == "cer-wrong-host":
                kw["host"] = "intruder.example"
            elif e == "cer-wrong-realm":
                kw["realm"] = "other.realm"
            elif e == "cer-missing-avp":
                kw["drop"] = "or"
            elif e == "cer-extra-flag":
                kw["flags"] = 0xC0
            w.feed(peer_cer(hbh, e2e, **kw))
            if e == "cer":
                self._req(257, hbh, e2e, self.generation)
                if poss0 == {"Closed"}:
                    det = dict(next="Open", out={(257, False): 1})
                    self.opened_after_cex = True
                else:
                    det = dict(next="Open", out={(257, False): 1})
            else:
                # an invalid CER never opens the connection.  The statement does not say whether it is answered: silence and a
                # rejection (a CEA with a Result-Code outside 2xxx, RFC 6733 5.3) are both accepted; C07 judges the identifiers and
                # the origin of such an answer like those of any other (the request is "optionally answered")
                det = dict(next=next(iter(poss0)), out={(257, False): "0-or-1-rejection"}) if len(poss0) == 1 else None
                nxt = poss0
                if poss0 in ({"Closed"}, {"Open"}):
                    self.optional.append((257, hbh, e2e, self.generation))
                    self.req_log.append((257, hbh, e2e, self.generation, True))
        elif e.startswith("cea"):
            kw = {}
            if e == "cea-wrong-host":
                kw["host"] = "intruder.example"
            elif e == "cea-wrong-realm":
                kw["realm"] = "other.realm"
            elif e == "cea-missing-avp":
                kw["drop"] = "pn"
            elif e == "cea-extra-flag":
                kw["flags"] = 0x40
            cer = next((m for m in before if m["cmd"] == 257 and m["flags"] & 0x80), None)
            w.feed(peer_cea(cer["hbh"] if cer else hbh, cer["e2e"] if cer else e2e, **kw))
            if poss0 == {"WaitICEA"}:
                if e == "cea":
                    det = dict(next="Open", out={})
                    self.opened_after_cex = True
                else:
                    nxt = {"WaitICEA", "Closed"}          # statement is silent on an invalid CEA; it must not open
            elif poss0 == {"Closed"}:
                det = dict(next="Closed", out={(257, False): 0})
            else:
                nxt = poss0 | {"Closing", "Closed"} if "Open" in poss0 else poss0
        elif e in ("dwr", "dwr-wrong-host", "dwr-pair"):
            if e == "dwr-wrong-host":
                w.feed(peer_dwr(hbh, e2e, host="intruder.example"))
            elif e == "dwr-pair":
                w.feed(peer_dwr(hbh, e2e) + peer_dwr(ev["hbh2"], ev["e2e2"]))
            else:
                w.feed(peer_dwr(hbh, e2e))
            if poss0 == {"Open"}:
                if e == "dwr":
                    self._req(280, hbh, e2e, self.generation)
                    det = dict(next="Open", out={(280, False): 1})
                elif e == "dwr-pair":
                    self._req(280, hbh, e2e, self.generation)
                    self._req(280, ev["hbh2"], ev["e2e2"], self.generation)
                    det = dict(next="Open", out={(280, False): 2})
                else:
                    nxt = {"Open", "Closing", "Closed"}
            elif poss0 == {"WaitICEA"}:
                det = dict(next="Closed", out={})
                settle = 2.0
            elif poss0 == {"Closed"}:
                det = dict(next="Closed", out={(280, False): 0, (257, False): 0})
            else:
                nxt = poss0 | {"Closed"}
        elif e == "dwa":
            w.feed(peer_dwa(hbh, e2e))
            if poss0 == {"WaitICEA"}:
                det = dict(next="Closed", out={})
                settle = 2.0
            elif poss0 == {"Closed"}:
                det = dict(next="Closed", out={(257, False): 0})
            else:
                nxt = poss0 | {"Closing", "Closed"}
        elif e in ("dpr", "dpr-wrong-host", "dpr-busy"):
            if e == "dpr-wrong-host":
                w.feed(peer_dpr(hbh, e2e, host="intruder.example"))
            elif e == "dpr-busy":
                w.feed(peer_dpr(hbh, e2e, cause=1))
            else:
                w.feed(peer_dpr(hbh, e2e))
            settle = 6.0
            if poss0 == {"Open"}:
                if e == "dpr":
                    self._req(282, hbh, e2e, self.generation)
                    det = dict(next="Closed", out={(282, False): 1})
                elif e == "dpr-busy":
                    # a DPR with another Disconnect-Cause is still a DPR from the configured peer: "a received DPR ... closes the
                    # connection" (whether it is answered is left open: the library only answers cause REBOOTING)
                    det = dict(next="Closed", out={})
                else:
                    nxt = {"Open", "Closed"}
            elif poss0 == {"WaitICEA"}:
                det = dict(next="Closed", out={})
            elif poss0 == {"Closed"}:
                det = dict(next="Closed", out={(282, False): 0, (257, False): 0})
            else:
                if poss0 == {"Closing"} and e == "dpr":
                    # crossing disconnects: the peer's DPR arrives while the node waits for the DPA of its own; answering it is
                    # left open, but an answer must be that request's answer
                    self.optional.append((282, hbh, e2e, self.generation))
                    self.req_log.append((282, hbh, e2e, self.generation, True))
                    self.peer_sent.append((282, hbh, e2e))
                nxt = poss0 | {"Closed"}
        elif e == "dpa-then-dwr":
            # the peer answers the DPR and, before the connection is gone, one more message of it arrives (a watchdog request that
            # was already on its way): the connection still ends
            dpr = next((m for m in reversed(before) if m["cmd"] == 282 and m["flags"] & 0x80), None)
            w.feed(peer_dpa(dpr["hbh"] if dpr else hbh, dpr["e2e"] if dpr else e2e))
            self.settle(0.5)
            if not self.terminal():
                w.feed(peer_dwr(ev["hbh2"], ev["e2e2"]))
            settle = 8.0
            if poss0 == {"Closing"}:
                det = dict(next="Closed", out={})
                self.optional.append((280, ev["hbh2"], ev["e2e2"], self.generation))
                self.req_log.append((280, ev["hbh2"], ev["e2e2"], self.generation, True))
            elif poss0 == {"WaitICEA"}:
                det = dict(next="Closed", out={})
            else:
                nxt = poss0 | {"Closed"}
                if poss0 == {"Open"}:
                    self.optional.append((280, ev["hbh2"], ev["e2e2"], self.generation))
                    self.req_log.append((280, ev["hbh2"], ev["e2e2"], self.generation, True))
        elif e == "dpa":
            dpr = next((m for m in reversed(before) if m["cmd"] == 282 and m["flags"] & 0x80), None)
            w.feed(peer_dpa(dpr["hbh"] if dpr else hbh, dpr["e2e"] if dpr else e2e))
            settle = 6.0
            if poss0 == {"Closing"}:
                det = dict(next="Closed", out={})
            elif poss0 == {"WaitICEA"}:
                det = dict(next="Closed", out={})
            elif poss0 == {"Closed"}:
                det = dict(next="Closed", out={(257, False): 0})
            else:
                nxt = poss0 | {"Closed"}
        elif e in ("app-req", "app-ans", "misaddressed-req", "app-req-pair-dwr", "app-req-binary"):
            if e == "app-req":
                w.feed(app_request(hbh, e2e, dest_realm=LOCAL["realm"]))
            elif e == "app-req-binary":
                # AVP payloads are opaque to the state machine: a User-Name that is not UTF-8 is still an application message
                w.feed(app_request(hbh, e2e, dest_realm=LOCAL["realm"], user=b"\xff\xfe\x00user\x80"))
            elif e == "app-ans":
                w.feed(app_answer(hbh, e2e))
            elif e == "app-req-pair-dwr":
                w.feed(app_request(hbh, e2e, dest_realm=LOCAL["realm"]) + peer_dwr(ev["hbh2"], ev["e2e2"]))
            else:
                w.feed(app_request(hbh, e2e, dest_realm="elsewhere.example", dest_host="other.host.example"))
            if poss0 == {"Open"}:
                if e == "misaddressed-req":
                    nxt = {"Open"}
                elif e == "app-req-pair-dwr":
                    self._req(280, ev["hbh2"], ev["e2e2"], self.generation)
                    det = dict(next="Open", out={(280, False): 1}, delivered=1)
                else:
                    det = dict(next="Open", out={}, delivered=1)
            elif poss0 == {"WaitICEA"}:
                det = dict(next="Closed", out={}, delivered=0)
                settle = 2.0
            elif poss0 == {"Closed"}:
                det = dict(next="Closed", out={(257, False): 0}, delivered=0)
            else:
                nxt = poss0 | {"Closed"}
        elif e == "local-req":
            # the local application sends a request of its own (it becomes a pending request of the association)
            from . import c05
            m = c05.build_msgs({"subs": [{"msgs": [{"kind": "req", "size": 3}]}]})[0][0]
            w.call(f"local-req-{len(self.applied)}", lambda: w.d.send_message(m))
            det = dict(next="Open", out={})
        elif e == "app-ans-echo":
            # the peer answers the node's most recent application request with that request's identifiers; repeating the event
            # makes the answer a duplicate (the request is no longer pending)
            mine = [x for x in before if x["flags"] & 0x80 and x["cmd"] not in (257, 280, 282)]
            if mine:
                w.feed(app_answer(mine[-1]["hbh"], mine[-1]["e2e"], app=mine[-1]["app"], cmd=mine[-1]["cmd"]))
            else:
                w.feed(app_answer(hbh, e2e))
            if poss0 == {"Open"}:
                det = dict(next="Open", out={}, delivered=1)
            elif poss0 == {"WaitICEA"}:
                det = dict(next="Closed", out={}, delivered=0)
                settle = 2.0
            elif poss0 == {"Closed"}:
                det = dict(next="Closed", out={(257, False): 0}, delivered=0)
            else:
                nxt = poss0 | {"Closed"}
        elif e == "dpr-pair-app":
            # a DPR immediately followed, in the same segment, by an application request
            w.feed(peer_dpr(hbh, e2e) + app_request(ev["hbh2"], ev["e2e2"], dest_realm=LOCAL["realm"]))
            settle = 6.0
            if poss0 == {"Open"}:
                self._req(282, hbh, e2e, self.generation)
                det = dict(next="Closed", out={(282, False): 1})
            elif poss0 == {"WaitICEA"}:
                det = dict(next="Closed", out={})
            elif poss0 == {"Closed"}:
                det = dict(next="Closed", out={(282, False): 0, (257, False): 0})
            else:
                nxt = poss0 | {"Closed"}
        elif e == "local-stop":
            w.call(f"closer-{len(self.applied)}", lambda: w.d.close())
            det = dict(next="Closing", out={(282, True): 1})
        elif e in ("fin", "rst"):
            (w.net.peer_fin if e == "fin" else w.net.peer_rst)(sock)
            det = dict(next="Closed", out={})
            settle = 3.0
        elif e == "idle":
            settle = 8.0
            det = dict(next="Open", out={}, min_dwr=1)
        elif e == "restart":
            self.generation += 1
            self.connected = False
            self.start()
            self.applied.append(ev)
            self.check_state(e, poss0)
            return
        self.settle(settle)
        self.applied.append(ev)
        if det is not None:
            self.poss = {det["next"]}
        else:
            self.poss = set(nxt)
        self.check_state(e, poss0)
        if e == "cer-retx" and self.reported() == "Closed":
            self.opened_after_cex = False
        after = self.written()
        new = after[len(before):] if after[:len(before)] == before else after
        if det is not None:
            for (cmd, req), n in det["out"].items():
                got = self.count(new, cmd, req)
                if n == "0-or-1-rejection":
                    ceas = [m for m in new if m["cmd"] == cmd and not m["flags"] & 0x80]
                    codes = [int.from_bytes(x["data"], "big") for m in ceas for x in rc.find_avp(m["avps"], 268)]
                    if got > 1 or any(2000 <= c < 3000 for c in codes) or len(codes) != got:
                        self.viol("an invalid CER is not accepted", f"output/CEA/{next(iter(poss0))}/{e}/extra",
                                  f"in {sorted(poss0)} on {e}: {got} CEA written with Result-Codes {codes}; at most one rejection is expected")
                    continue
                if got != n:
                    label = {257: "CE", 280: "DW", 282: "DP"}[cmd] + ("R" if req else "A")
                    self.viol(f"required base-protocol output", f"output/{label}/{next(iter(poss0)) if len(poss0) == 1 else 'any'}/{e}/{'missing' if got < n else 'extra'}",
                              f"in {sorted(poss0)} on {e}: {got} {label} written, expected {n}")
            if "delivered" in det:
                got = len(self.consumed) - before_delivered
                if got != det["delivered"]:
                    self.viol("application messages are handed to the application only (and always) while Open",
                              f"delivery/{next(iter(poss0)) if len(poss0) == 1 else 'any'}/{e}/{'missing' if got < det['delivered'] else 'unexpected'}",
                              f"{got} delivered, expected {det['delivered']}")
            if det.get("min_dwr") and self.count(new, 280, True) < det["min_dwr"]:
                self.viol("an idle open connection emits a watchdog request after the configured timeout", "output/DWR/idle/missing",
                          f"{self.count(new, 280, True)} DWR in 8 idle seconds with watchdog 5")
            if det.get("min_dwr") and self.count(new, 280, True) > 2:
                # 8 idle seconds with a 5 second watchdog: one request, two at most when the period was already running
                self.viol("an idle open connection emits one watchdog request per timeout period", "output/DWR/idle/burst",
                          f"{self.count(new, 280, True)} DWR in 8 idle seconds with watchdog 5")
        else:
            # unspecified rows: never deliver outside Open, never answer CER outside Closed/Open
            if "Open" not in poss0 and len(self.consumed) > before_delivered:
                self.viol("application messages are handed to the application only while Open", f"delivery/not-open/{e}/unexpected",
                          f"delivered while model in {sorted(poss0)}")
        # unsolicited base answers are never emitted
        for cmd, lab in ((257, "CEA"), (280, "DWA"), (282, "DPA")):
            allowed = sum(1 for r in self.requests if r[0] == cmd) + sum(1 for r in self.optional if r[0] == cmd)
            if self.count(after, cmd, False) > allowed and e not in ("dwr-wrong-host", "dpr-wrong-host", "dpr-busy") and not e.startswith("cer-"):
                self.viol("base answers answer exactly one received request", f"output/{lab}/unsolicited/{e}", f"{self.count(after, cmd, False)} > {allowed}")
        self.global_invariants(e)

    def check_state(self, e, poss0):
        rep = self.reported()
        names = {self.name_of(s) for s in self.poss}
        self.visited.add(rep)
        if rep not in names:
            self.viol("the reported connection state follows the peer state machine",
                      f"state/{'+'.join(sorted(poss0))}/{e}/reported={rep}", f"model allows {sorted(names)} after {e} in {sorted(poss0)}")
            # resynchronise on the observation so that later events are still judged
            back = {v: k for k, v in NAMES.items()}
            back.update({"I-Open": "Open", "R-Open": "Open"})
            if rep in back:
                self.poss = {back[rep]}
        else:
            self.poss = {s for s in self.poss if self.name_of(s) == rep}
        if self.w.d.is_open() != (rep in ("I-Open", "R-Open")):
            self.viol("is_open() agrees with the reported state", "is_open/disagrees", rep)
        if rep in ("I-Open", "R-Open") and not self.opened_after_cex:
            self.viol("Open only after a Capabilities-Exchange with the configured peer identity", f"opened-without-valid-cex/{e}", rep)
        if rep == "Closed" and self.ended:
            self.opened_after_cex = False

    def global_invariants(self, e):
        w = self.w
        psm = [t for t in w.sched.threads if t.name.endswith("_psm_thread")]
        cur = psm[-1] if psm else None
        if cur is not None:
            if cur.exc is not None:
                self.viol("no input makes the state machine raise", f"psm-raised/{type(cur.exc).__name__}", repr(cur.exc))
            elif cur.state == "finished" and self.reported() != "Closed":
                self.viol("no input makes the state machine stop ticking", f"psm-stopped/{e}", self.reported())
        if self.reported() == "Closed" and self.ended:
            open_socks = [s.fd for s in w.net.socks if s.state != "new" and not s.closed]
            regs = [len(sel._map) for sel in w.net.selectors if sel._map]
            assoc = w.d._association
            if open_socks or regs or (assoc is not None and assoc.is_connected()):
                self.viol("Closed implies the transport has been released", f"closed-not-released/{e}", f"fds {open_socks} regs {regs}")


def consumer_loop(run):
    def loop():
        while True:
            m = run.w.d.get_message()
            if m is None:
                return
            run.consumed.append((run.reported(), m.header.get_hop_by_hop()))
            if run.reported() not in ("I-Open", "R-Open"):
                run.viol("application messages are handed to the application only while Open", "delivery/state-at-delivery",
                         f"get_message() returned while {run.reported()}")
    return loop


def execute(case):
    """-> (Run, info)"""
    from .. import refdict
    refdict.all_classes()
    apps = ["s6a", "gx"][:case["napps"]]
    info = {}
    with World(role=case["role"], apps=apps, watchdog=5, max_steps=1500000) as w:
        run = Run(case, w)
        # observed at every scheduling step: once the node has been out of Closed, Closed is not reported again while the
        # connection's socket is still open ("Closed" implies the transport has been released)
        left, early = [False], []

        def hook(cur, kind):
            if w.d is None:
                return
            st_now = w.state()
            s = w.sock
            if st_now != "Closed":
                left[0] = True
            elif left[0]:
                if s is not None and not s.closed:
                    if not early:
                        early.append((kind, cur.name, s.fd))
                else:
                    left[0] = False
        w.sched.step_hook = hook
        run.start()
        run.check_state("start", {"Closed"})
        consumer_started = [False]
        for ev in case["events"]:
            if w.sched.overrun:
                break
            if not run.applicable(ev["e"]):
                run.skipped += 1
                continue
            if not consumer_started[0] or run.generation != consumer_started[0] - 1:
                pass
            run.apply(ev)
            # (re)start a consumer whenever a connection is open and none is waiting
            if run.reported() in ("I-Open", "R-Open") and not any(t.name.startswith("consumer") and t.state != "finished" for t in w.sched.threads):
                w.call(f"consumer-{run.generation}", consumer_loop(run))
                if case.get("backlog"):
                    from . import c05
                    msgs = c05.build_msgs({"subs": [{"msgs": [{"kind": "req", "size": 90000}] * case["backlog"]}]})[0]
                    w.call(f"backlog-{run.generation}", lambda: [w.d.send_message(m) for m in msgs])
            if len(run.vs) >= 3:
                break
        run.final_written = run.written()
        w.sched.step_hook = None
        if early:
            run.vs.append(V("Closed is reported only once the connection's socket has been released", f"closed-reported-before-release/{case['role']}",
                            f"at a '{early[0][0]}' point of {early[0][1]}: state Closed while fd {early[0][2]} was still open"))
        info.update(steps=w.sched.steps, visited=sorted(run.visited), skipped=run.skipped, applied=[e["e"] for e in run.applied])
        world = w
    if world.unreaped:
        raise RuntimeError(f"harness could not reap threads: {world.unreaped}")
    return run, info


def run_case(case):
    return execute(case)[0].vs


def features(case, info):
    f = {"role=" + case["role"], f"apps={case['napps']}"}
    if len(info.get("visited", ())) >= 3:
        f.add("visits>=3-states")
    if any(e in UNEXPECTED for e in info.get("applied", ())):
        f.add("non-conformant-event")
    for e in info.get("applied", ()):
        f.add("ev=" + e)
    for s in info.get("visited", ()):
        f.add("state=" + s)
    return f


def _collect(shard, seed, n):
    common.bootstrap()
    col = Collector(PID, RULE)

    def body(case):
        run, info = execute(case)
        f = features(case, info)
        col.record(case, run.vs, nontrivial=bool(f & {"visits>=3-states", "non-conformant-event"}), classes=sorted(f))
        col.extra["events_applied"] = col.extra.get("events_applied", 0) + len(info["applied"])
        col.extra["events_skipped_not_applicable"] = col.extra.get("events_skipped_not_applicable", 0) + info["skipped"]

    common.hyp_collect(cases(), body, n, seed)
    return col


EXH_ALPHABET = ["local-req", "app-ans-echo", "dpr-pair-app", "app-req-binary", "dwr", "dwr-pair", "dwr-wrong-host", "dwa", "dpr", "dpr-busy", "dpr-wrong-host", "dpa", "app-req", "app-ans",
                "misaddressed-req", "local-stop", "fin", "rst", "cer", "cer-wrong-host", "cea", "cea-wrong-realm", "restart", "ack", "nack"]


def _exhaustive(args):
    """every event sequence of the given length over EXH_ALPHABET after the canonical opening, for one role and first event"""
    import itertools
    role, first, depth = args
    common.bootstrap()
    col = Collector(PID, RULE)
    opening = [_ev("ack"), _ev("cea")] if role == "client" else [_ev("cer", hbh=0x0A0B0C0D, e2e=0x01020304)]
    n = nt = 0
    for tail in itertools.product(EXH_ALPHABET, repeat=depth - 1):
        evs = opening + [_ev(e, hbh=0x100 + i, e2e=0x200 + i, hbh2=0x300 + i, e2e2=0x400 + i) for i, e in enumerate((first,) + tail)]
        case = {"role": role, "napps": 1, "events": evs, "backlog": 0}
        run, info = execute(case)
        n += 1
        nt += len(info["visited"]) >= 3 or any(e in UNEXPECTED for e in info["applied"])
        for v in run.vs:
            col.violation(case, v)
    col.count_enum(n, nt, {"exhaustive-sequences": n})
    return col


EXH_PREFIXES = [["local-req", "local-stop"], ["local-req", "app-ans-echo"], ["local-stop"], ["local-req", "dpr"], ["app-req", "local-stop"],
                ["dwr", "local-stop"], ["local-req", "local-req"], ["local-req", "dwr"], ["idle"]]


def _exhaustive_after_prefix(args):
    """every event sequence of the given length over EXH_ALPHABET after the canonical opening followed by a multi-step prefix
    (a request of the local application outstanding, a local stop under way, ...)"""
    import itertools
    role, prefix, depth = args
    common.bootstrap()
    col = Collector(PID, RULE)
    opening = [_ev("ack"), _ev("cea")] if role == "client" else [_ev("cer", hbh=0x0A0B0C0D, e2e=0x01020304)]
    n = nt = 0
    for tail in itertools.product(EXH_ALPHABET + ["dpa-then-dwr"], repeat=depth):
        evs = opening + [_ev(e, hbh=0x100 + i, e2e=0x200 + i, hbh2=0x300 + i, e2e2=0x400 + i) for i, e in enumerate(tuple(prefix) + tail)]
        case = {"role": role, "napps": 1, "events": evs, "backlog": 0}
        run, info = execute(case)
        n += 1
        nt += len(info["visited"]) >= 3 or any(e in UNEXPECTED for e in info["applied"])
        for v in run.vs:
            col.violation(case, v)
    col.count_enum(n, nt, {"exhaustive-after-prefix": n})
    return col


def _ev(e, hbh=1, e2e=1, hbh2=2, e2e2=2):
    return {"e": e, "hbh": hbh, "e2e": e2e, "hbh2": hbh2, "e2e2": e2e2}


def main(ctx):
    col = common.run_shards(_collect, 8 if ctx.quick else 16, ctx.seed, n=120 if ctx.quick else 2500)
    depth = 2 if ctx.quick else 3
    jobs = [(role, first, depth) for role in ("client", "server") for first in EXH_ALPHABET]
    for part in common.pmap(_exhaustive, jobs):
        col.merge(part)
    for part in common.pmap(_exhaustive_after_prefix, [(role, pre, 1 if ctx.quick else 2) for role in ("client", "server") for pre in EXH_PREFIXES]):
        col.merge(part)
    col.extra["exhaustive_after_prefix"] = (f"every sequence of {1 if ctx.quick else 2} event(s) over the same alphabet (+ dpa-then-dwr) after the opening and each of "
                                            f"{len(EXH_PREFIXES)} multi-step prefixes {EXH_PREFIXES}, both roles")
    col.exhaustive = True
    col.extra["exhaustive_scope"] = (f"every sequence of {depth} events over a {len(EXH_ALPHABET)}-event alphabet after the canonical opening "
                                     f"(client: ack, CEA; server: CER), both roles: {2 * len(EXH_ALPHABET) ** depth} sequences; events that are "
                                     "not applicable in the reached state are skipped by the model")
    for path, rec in common.load_replays(PID):
        col.record(rec["case"], run_case(rec["case"]), nontrivial=True, classes=["replay"])
    ctx.required_classes = ["exhaustive-sequences", "exhaustive-after-prefix", "visits>=3-states", "non-conformant-event", "role=client", "role=server", "state=Closing", "state=Wait-I-CEA",
                            "ev=restart", "ev=idle", "ev=local-stop", "ev=dpr", "ev=fin", "ev=nack", "ev=misaddressed-req", "ev=cer-wrong-host",
                            "ev=cea-wrong-realm"]
    ctx.assumptions = ["fair schedule with virtual-time settling after each event (0.6-8 virtual s); CER while the initiator waits (election "
                       "states, unimplemented per the statement) is excluded by construction",
                       "rows on which the statement is silent (invalid DWR/DWA/DPR, CEA/DPA/CER in Open, invalid CEA in Wait-I-CEA) are "
                       "nondeterministic in the model: only the global invariants are asserted there",
                       "long sequences are sampled (guided random, <= 16 events); exhaustive only to depth 2 (quick) / 3 (thorough) after the opening"]

    def shrinker(sig, case):
        evs = common.ddmin_list(case["events"], lambda sub: any(v.sig == sig for v in run_case(dict(case, events=sub))), budget_s=40)
        return dict(case, events=evs)
    ctx.shrinker = shrinker
    return col

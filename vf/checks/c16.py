"""C16 - generated Session-Ids are unique for the process lifetime and well-formed.

Generator : histories over {SessionIdAVP(identity), AcctMultiSessionIdAVP(identity),
            typed message with session_id=identity, bulk origin update that
            switches identity, SessionIdAVP(bytes), clock tick 0/1/1000 s} with
            1..3 identities, on a virtual clock (bromelia._internal_utils.datetime
            is substituted), so that many ids fall into one clock second.
Oracle    : no duplicate among all generated ids; each starts with identity+';'
            and matches identity;high32;low32[;optional]; bytes carried unchanged.
"""
import datetime as real_datetime
import re

from hypothesis import strategies as st

from .. import common, gens, refdict
from ..common import V, Collector

PID = "C16"
RULE = ("histories of Session-Id generating operations for 1..3 identities under a virtual clock; non-trivial = the history contains "
        ">= 2 bulk origin updates that switch identity within one clock second, or ids generated for >= 2 identities within one "
        "second; distinct by SHA-1 of the case record")

IDENTS = ["mme.epc.example.org", "hss.example", "a", "nœud.example", "mme.epc", "hss.example.org"]


class _FakeDatetimeModule:
    """stands in for the `datetime` module inside bromelia._internal_utils"""
    def __init__(self):
        self.now = real_datetime.datetime(2024, 5, 1, 12, 0, 0)
        outer = self

        class _DT(real_datetime.datetime):
            @classmethod
            def utcnow(cls):
                return real_datetime.datetime(outer.now.year, outer.now.month, outer.now.day, outer.now.hour,
                                              outer.now.minute, outer.now.second, outer.now.microsecond)

            @classmethod
            def now(cls, tz=None):
                return cls.utcnow()
        self.datetime = _DT
        self.timedelta = real_datetime.timedelta
        self.date = real_datetime.date


def run_history(case):
    common.bootstrap()
    refdict.all_classes()
    import bromelia._internal_utils as iu
    from bromelia.lib.etsi_3gpp_s6a.messages import UpdateLocationRequest, AuthenticationInformationAnswer
    errors = common.lib_errors()
    fake = _FakeDatetimeModule()
    saved = iu.datetime
    iu.datetime = fake
    SessionIdAVP = refdict.cls_obj("SessionIdAVP")
    Amsid = refdict.cls_obj("AcctMultiSessionIdAVP")
    issued = []          # (id string, step, how, identity)
    msgs = []
    shared = {}
    vs = []
    try:
        iu.SessionHandler.reset()          # "process start" at virtual time T0
        for step, op in enumerate(case["ops"], 1):
            k = op["op"]
            try:
                if k == "tick":
                    fake.now = fake.now + real_datetime.timedelta(seconds=op["d"])
                    continue
                if k == "ffwd":
                    # fast-forward of a long-lived process: as if 2^k - 2 Session-Ids had been generated so far (below 2^32)
                    if iu.SessionHandler.id < 2**op["k"] - 2:
                        iu.SessionHandler.id = 2**op["k"] - 2
                    continue
                if k == "new-node":
                    # the application creates (another) node object between two Session-Id generations; nothing is started
                    import struct as _struct
                    from bromelia.setup import Diameter
                    Diameter(config={"MODE": "CLIENT", "TRANSPORT_TYPE": "TCP",
                                     "APPLICATIONS": [{"vendor_id": _struct.pack(">I", 10415), "app_id": _struct.pack(">I", 16777251)}],
                                     "LOCAL_NODE_HOSTNAME": IDENTS[op["ident"]], "LOCAL_NODE_REALM": "realm", "LOCAL_NODE_IP_ADDRESS": "127.0.0.1",
                                     "LOCAL_NODE_PORT": 3868, "PEER_NODE_HOSTNAME": "peer.remote.example", "PEER_NODE_REALM": "realm",
                                     "PEER_NODE_IP_ADDRESS": "127.0.0.2", "PEER_NODE_PORT": 3868, "WATCHDOG_TIMEOUT": 30})
                    continue
                if k == "bytes":
                    raw = bytes.fromhex(op["x"])
                    a = SessionIdAVP(raw)
                    if a.data != raw:
                        vs.append(V("a Session-Id supplied as bytes is carried unchanged", "bytes-altered", f"{a.data!r} != {raw!r}"))
                    continue
                if k == "typed-foreign":
                    # a message that carries somebody else's Session-Id (supplied as bytes / decoded from the wire), e.g. a relayed request
                    raw = f"peer.remote.example;{op['high']};{op['low']}".encode()
                    m = UpdateLocationRequest(session_id=raw, origin_host="peer.remote.example", origin_realm="realm", destination_realm="r",
                                              user_name="001010000000001", visited_plmn_id=b"\x00\xf1\x10")
                    if op.get("decoded"):
                        from bromelia.base import DiameterMessage
                        m = DiameterMessage.load(m.dump())[0]
                    if m.session_id_avp.data != raw:
                        vs.append(V("a Session-Id supplied as bytes is carried unchanged", "bytes-altered/typed", f"{m.session_id_avp.data!r} != {raw!r}"))
                    msgs.append(m)
                    continue
                if k == "update-bytes":
                    if not msgs:
                        continue
                    m = msgs[op["msg"] % len(msgs)]
                    raw = bytes.fromhex(op["x"])
                    pairs = [("origin_host", IDENTS[op["ident"]]), ("session_id", raw)]
                    m.update_avps(dict(pairs if op["order"] == 0 else pairs[::-1]))
                    wire = [a for a in m.avps if type(a).__name__ == "SessionIdAVP"]
                    if m.session_id_avp.data != raw or len(wire) != 1 or wire[0].data != raw:
                        vs.append(V("a Session-Id supplied as bytes is carried unchanged", "bytes-altered/bulk-update-with-origin",
                                    f"step {step}: update_avps(origin_host, session_id={raw!r}) left {m.session_id_avp.data!r}"))
                    continue
                ident = IDENTS[op["ident"]]
                if k == "sid":
                    sid = SessionIdAVP(ident).data
                elif k == "amsid":
                    sid = Amsid(ident).data
                elif k == "typed":
                    if op.get("cls") == "aia":
                        m = AuthenticationInformationAnswer(session_id=ident, origin_host=ident, origin_realm="realm")
                    else:
                        m = UpdateLocationRequest(session_id=ident, origin_host=ident, origin_realm="realm", destination_realm="r",
                                                  user_name="001010000000001", visited_plmn_id=b"\x00\xf1\x10")
                    msgs.append(m)
                    sid = m.session_id_avp.data
                elif k in ("update", "update-shared"):
                    if not msgs:
                        continue
                    m = msgs[op["msg"] % len(msgs)]
                    if k == "update-shared":
                        # the application keeps one dict for "move this message to origin X" and passes it to message after message
                        shared["origin_host"] = ident
                        m.update_avps(shared)
                    else:
                        m.update_avps({"origin_host": ident})
                    sid = m.session_id_avp.data
                    # the id on the wire must be the regenerated one as well
                    wire = [a for a in m.avps if type(a).__name__ == "SessionIdAVP"]
                    if len(wire) != 1 or wire[0].data != sid:
                        vs.append(V("regenerated Session-Id is the one the message carries", "update-not-in-list", f"step {step}"))
                else:
                    raise ValueError(op)
            except (Exception,) + errors as e:
                vs.append(V("Session-Id generation does not fail", f"raises/{k}/{type(e).__name__}", f"step {step}: {e!r}"))
                break
            try:
                text = sid.decode("utf-8")
            except Exception:
                vs.append(V("generated Session-Id is text", f"not-utf8/{k}", repr(sid)))
                break
            how = k
            if not text.startswith(ident + ";"):
                vs.append(V("generated Session-Id starts with the given identity", f"prefix/{how}", f"step {step}: {text!r} for {ident!r}"))
            m_ = re.fullmatch(re.escape(ident) + r";(\d+);(\d+)(;.+)?", text)
            if not m_:
                vs.append(V("Session-Id has the form identity;high32;low32[;optional]", f"format/{how}", f"step {step}: {text!r}"))
            elif int(m_.group(1)) >= 2**32 or int(m_.group(2)) >= 2**32:
                vs.append(V("high and low parts fit 32 bits", f"range/{how}", text))
            for (other, ostep, ohow, oident) in issued:
                if other == text:
                    switched = any(o["op"] in ("update", "update-shared") for o in case["ops"][:step])
                    vs.append(V("every generated Session-Id is distinct from every other generated in the process",
                                "duplicate/" + ("after-bulk-origin-update" if switched else "no-update-involved"),
                                f"steps {ostep} ({ohow}) and {step} ({how}) both produced {text!r}"))
                    break
            issued.append((text, step, how, ident))
            if vs:
                break
    finally:
        iu.datetime = saved
        iu.SessionHandler.reset()
    seen, out = set(), []
    for v in vs:
        if v.sig not in seen:
            seen.add(v.sig)
            out.append(v)
    return out


def run_case(case):
    return run_history(case)


ident = st.integers(0, len(IDENTS) - 1)
op = st.one_of(
    st.builds(lambda i: {"op": "sid", "ident": i}, ident),
    st.builds(lambda i: {"op": "amsid", "ident": i}, ident),
    st.builds(lambda i, c: {"op": "typed", "ident": i, "cls": c}, ident, st.sampled_from(["ulr", "aia"])),
    st.builds(lambda m, i: {"op": "update", "msg": m, "ident": i}, st.integers(0, 5), ident),
    st.builds(lambda m, i: {"op": "update", "msg": m, "ident": i}, st.integers(0, 5), ident),
    st.builds(lambda m, i: {"op": "update-shared", "msg": m, "ident": i}, st.integers(0, 5), ident),
    st.builds(lambda k: {"op": "ffwd", "k": k}, st.sampled_from([8, 16, 24, 28, 30, 31])),
    st.builds(lambda x: {"op": "bytes", "x": x.hex()}, st.binary(max_size=20)),
    st.builds(lambda t, k: {"op": "bytes", "x": (t if k == 0 else f"peer.example;1;2;{t}" if k == 1 else f"{t}.example;7;9").encode("utf-8").hex()},
              gens.tricky_text, st.integers(0, 2)),
    st.builds(lambda i: {"op": "new-node", "ident": i}, ident),
    st.builds(lambda h, l, d: {"op": "typed-foreign", "high": h, "low": l, "decoded": d},
              st.sampled_from([1, 2**31, 2**32 - 1, 3923553690, 3923553600, 3923553599]), st.integers(0, 9), st.booleans()),
    st.builds(lambda m, i, o, x: {"op": "update-bytes", "msg": m, "ident": i, "order": o, "x": x.hex()}, st.integers(0, 5), ident, st.integers(0, 1),
              # Session-Id is a UTF8String: text only (a later regeneration reads the previous id as text)
              st.one_of(st.text(min_size=1, max_size=12).map(lambda t: t.encode("utf-8")), st.just(b"peer.remote.example;1;2"),
                        gens.tricky_text.map(lambda t: f"peer.remote.example;1;2;{t}".encode("utf-8")),
                        st.just(b"peer.remote.example;4294967295;2;x"))),
    st.builds(lambda d: {"op": "tick", "d": d}, st.sampled_from([0, 0, 0, 1, 1, 1000])),
)
cases = st.builds(lambda ops: {"ops": ops}, st.lists(op, min_size=2, max_size=30))


def features(case):
    f = set()
    # walk the history by clock second
    sec = 0
    upd_in_sec = 0
    idents_in_sec = set()
    last_ident = {}
    n_msgs = 0
    for o in case["ops"]:
        if o["op"] == "tick":
            if o["d"]:
                sec += o["d"]
                upd_in_sec = 0
                idents_in_sec = set()
            continue
        if o["op"] == "bytes":
            f.add("bytes-input")
            continue
        if o["op"] == "typed-foreign":
            last_ident[n_msgs] = "foreign"
            n_msgs += 1
            continue
        if o["op"] == "update-bytes":
            if n_msgs:
                f.add("bulk-update-with-origin-and-bytes-id")
            continue
        if o["op"] == "typed":
            last_ident[n_msgs] = o["ident"]
            n_msgs += 1
        if o["op"] == "ffwd":
            f.add("counter-fast-forward")
            continue
        if o["op"] == "update-shared" and n_msgs:
            f.add("bulk-update-with-a-reused-dict")
        if o["op"] in ("update", "update-shared") and n_msgs:
            k = o["msg"] % n_msgs
            if last_ident.get(k) == "foreign":
                f.add("bulk-origin-update-of-a-foreign-session-id")
            if last_ident.get(k) != o["ident"]:
                upd_in_sec += 1
                last_ident[k] = o["ident"]
            if upd_in_sec >= 2:
                f.add("two-identity-switches-in-one-second")
        idents_in_sec.add(o["ident"])
        if len(idents_in_sec) >= 2:
            f.add("two-identities-in-one-second")
    return f


def _collect(shard, seed, n):
    col = Collector(PID, RULE)

    def body(case):
        f = features(case)
        col.record(case, run_history(case), nontrivial=bool(f & {"two-identity-switches-in-one-second", "two-identities-in-one-second"}),
                   classes=sorted(f))

    common.hyp_collect(cases, body, n, seed)
    return col


def main(ctx):
    col = common.run_shards(_collect, 8 if ctx.quick else 16, ctx.seed, n=250 if ctx.quick else 3000)
    for path, rec in common.load_replays(PID):
        col.record(rec["case"], run_case(rec["case"]), nontrivial=True, classes=["replay"])
    ctx.required_classes = ["two-identity-switches-in-one-second", "two-identities-in-one-second", "bytes-input",
                            "bulk-origin-update-of-a-foreign-session-id", "bulk-update-with-origin-and-bytes-id"]
    ctx.assumptions = ["identities contain no ';'", "the clock is the virtual clock substituted for bromelia._internal_utils.datetime; "
                       "SessionHandler.reset() at the start of each history models process start"]

    def shrinker(sig, case):
        ops = common.ddmin_list(case["ops"], lambda sub: any(v.sig == sig for v in run_history({"ops": sub})), budget_s=20)
        return {"ops": ops}
    ctx.shrinker = shrinker
    return col

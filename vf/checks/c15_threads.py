"""C15, concurrent clause: requests created concurrently from several threads are pairwise distinct.

2..3 controlled threads each create header-less requests (generic and typed) while the
random source serves the same low-entropy values to all of them; the schedule prefix
preempts at source-line granularity inside bromelia/base.py (the check-then-append of
the identifier registries is not a synchronisation operation)."""
import threading as _rt

from hypothesis import strategies as st

from .. import common, conc
from ..common import V, Collector
from ..dsched import Scheduler, Net, Patch, ShimLock, Killed
from . import c15

_LOCK_TYPES = (type(_rt.Lock()), type(_rt.RLock()))


@st.composite
def cases(draw):
    nthreads = draw(st.sampled_from([2, 2, 3]))
    per = draw(st.integers(1, 3))
    alphabet = draw(st.sampled_from([[5], [5, 6], [5, 6, 7]]))
    source = draw(st.lists(st.sampled_from(alphabet), min_size=4, max_size=30))
    # bad-req: a construction that fails header validation after its identifiers have been drawn (the caller catches the error)
    kinds = [draw(st.sampled_from(["req", "req", "ulr", "ccr", "bad-req"])) for _ in range(nthreads)]
    if all(k == "bad-req" for k in kinds):
        kinds[0] = "req"
    # dense switching: the race window is a couple of source lines wide
    sched = draw(st.one_of(conc.schedules(400), st.lists(st.sampled_from([0, 0, 0, 1, 1, 2]), min_size=50, max_size=400)))
    return {"kind": "threads", "nthreads": nthreads, "per": per, "source": source, "kinds": kinds, "sched": sched}


def run_one(case):
    common.bootstrap()
    from .. import refdict
    refdict.all_classes()
    import bromelia.base as base
    from bromelia.base import DiameterRequest
    errors = common.lib_errors()
    sched = Scheduler(choices=list(case["sched"]), line_preempt=True, trace_prefix=common.REPO.rstrip("/") + "/bromelia/base.py",
                      max_steps=400000)
    net = Net(sched)
    fake = c15.FakeOs(case["source"])
    saved_os = base.os
    swapped = []
    made = []           # (thread, hbh, e2e)
    errs = []
    info = {}
    with Patch(sched, net):
        sched.register_driver()
        base.os = fake
        DiameterRequest.hop_by_hop_identifiers.clear()
        DiameterRequest.end_to_end_identifiers.clear()
        # any real lock guarding the registries must become a scheduler-aware lock, or the harness itself would block
        for holder in (DiameterRequest, base):
            for name, val in list(vars(holder).items()):
                if isinstance(val, _LOCK_TYPES):
                    swapped.append((holder, name, val))
                    setattr(holder, name, ShimLock(sched, name))
        try:
            def worker(ti):
                def run():
                    for _ in range(case["per"]):
                        try:
                            if case["kinds"][ti] == "bad-req":
                                try:
                                    DiameterRequest(command_code=316, application_id=2**32)
                                except errors:
                                    pass
                                continue
                            m = c15._make(case["kinds"][ti], errors)
                            made.append((ti, m.header.hop_by_hop, m.header.end_to_end))
                        except Killed:
                            raise
                        except (Exception,) + errors as e:
                            errs.append(repr(e))
                return run
            cts = [sched.spawn(worker(i), f"creator-{i}") for i in range(case["nthreads"])]
            r = sched.run_until(lambda: all(c.state == "finished" for c in cts) or sched.overrun, 5.0)
            info.update(result=r, steps=sched.steps, line_switches=sched.line_switches,
                        in_draw_loop=sum(1 for (n, loc) in sched.switch_pairs if loc and "identifier" in loc[0]))
        finally:
            unreaped = sched.kill_all()
            base.os = saved_os
            for holder, name, val in swapped:
                setattr(holder, name, val)
            DiameterRequest.hop_by_hop_identifiers.clear()
            DiameterRequest.end_to_end_identifiers.clear()
    if unreaped:
        raise RuntimeError(f"harness could not reap threads: {unreaped}")
    vs = []
    if errs:
        vs.append(V("request creation does not fail", "threads/raises", errs[0]))
    if info.get("result") != "ok" or len(made) != sum(case["per"] for k in case["kinds"] if k != "bad-req"):
        vs.append(V("concurrent request creation completes", "threads/incomplete", f"{len(made)} created; run={info.get('result')}"))
    hb = [h for _, h, _ in made]
    ee = [e for _, _, e in made]
    if any(not (isinstance(x, bytes) and len(x) == 4) for x in hb + ee):
        vs.append(V("every header-less request receives a Hop-by-Hop and an End-to-End identifier", "threads/identifier-missing", f"{hb} {ee}"))
    if len(set(hb)) != len(hb):
        vs.append(V("requests created concurrently carry pairwise distinct Hop-by-Hop identifiers", "threads/reuse/hop-by-hop", f"{hb}"))
    if len(set(ee)) != len(ee):
        vs.append(V("requests created concurrently carry pairwise distinct End-to-End identifiers", "threads/reuse/end-to-end", f"{ee}"))
    return vs, info


def run_case(case):
    return run_one(case)[0]


def _collect(shard, seed, n):
    col = Collector(c15.PID, c15.RULE)

    def body(case):
        vs, info = run_one(case)
        f = ["threads", f"threads={case['nthreads']}"]
        if info.get("in_draw_loop"):
            f.append("two-threads-in-draw-loop")
        if "bad-req" in case["kinds"]:
            f.append("refused-construction-among-the-threads")
        col.record(case, vs, nontrivial=bool(info.get("in_draw_loop")), classes=f)

    common.hyp_collect(cases(), body, n, seed)
    return col


def collect(ctx):
    return common.run_shards(_collect, 8 if ctx.quick else 16, ctx.seed, n=100 if ctx.quick else 1500)

"""C04 - inbound messages are delivered once, in order, however the stream is fragmented.

Generator : 1..8 application messages (requests/answers, 20..6000 bytes, correctly
            addressed) optionally interleaved with DWR; a segmentation of their
            concatenation (one segment / message-aligned / inside a header / inside
            an AVP header / byte-at-a-time / random cuts); 1..2 consumers blocked
            in get_message(); a generated schedule prefix (optionally with
            source-line preemption) followed by fair completion; both roles.
Oracle    : the consumer-side list of received messages (compared by dump()
            bytes) equals the sent application sequence: same multiset, each once,
            order preserved per consumer (total order with one consumer); DWAs are
            written in DWR order (reference-decoded).
"""
from hypothesis import strategies as st

from .. import common, conc
from .. import refcodec as rc
from ..common import V, Collector
from ..world import World, LOCAL, app_request, app_answer, peer_dwr

PID = "C04"
RULE = ("(message sequence, segmentation, consumers, schedule) cases on a live node in the controlled world; non-trivial = some "
        "message spans >= 2 recv() results or >= 2 messages share one recv(), and the schedule prefix contains a context switch; "
        "distinct by SHA-1 of the case record")


@st.composite
def cases(draw):
    n = draw(st.integers(1, 8))
    msgs = []
    for i in range(n):
        kind = draw(st.sampled_from(["req", "req", "req", "ans", "ans", "dwr", "dwr", "bare"]))        # bare: a header-only message (no AVPs)
        size = draw(st.sampled_from([0, 0, 1, 3, 17, 100, 1000, 5800, 5800, 65400, 65536, 70000, 140000]))
        m = {"kind": kind, "size": size}
        # header variety a conformant peer may produce: the T flag (potentially re-transmitted), and a message that repeats the
        # End-to-End (and possibly the Hop-by-Hop) identifier of an earlier one - it is still a message of the sequence
        if draw(st.integers(0, 5)) == 0:
            m["t"] = True
        if i and draw(st.integers(0, 4)) == 0:
            m["dup_of"] = draw(st.integers(0, i - 1))
            m["same_hbh"] = draw(st.booleans())
        msgs.append(m)
    if not any(m["kind"] != "dwr" for m in msgs):
        msgs[0]["kind"] = "req"
    seg = draw(st.sampled_from(["one", "aligned", "in-header", "header-prefix", "header-prefix", "in-avp-header", "bytewise", "random", "random",
                                "coalesce-pairs", "at-read-size"]))
    chunk = draw(st.sampled_from([4096, 65536, 262144, 262144]))
    if seg == "at-read-size":
        # a read returns exactly `chunk` bytes (a plausible size of the transport's read buffer) and nothing more is pending yet
        need = 2 * chunk + 100
        big = [{"kind": "req", "size": 140000}] * (need // 140000 + 1) if chunk > 65536 else [{"kind": "req", "size": min(need, 140000)}]
        at = draw(st.integers(0, len(msgs)))
        msgs = msgs[:at] + [dict(b) for b in big] + msgs[at:]
    hp = draw(st.sampled_from([1, 2, 3, 3, 19, 20, 21, 30]))
    cuts = draw(st.lists(st.integers(1, 40000), max_size=12)) if seg == "random" else []
    sched = draw(conc.schedules(300))
    return {"chunk": chunk, "role": draw(st.sampled_from(["client", "server"])), "msgs": msgs, "seg": seg, "cuts": sorted(set(cuts)),
            "hp": hp, "consumers": draw(st.sampled_from([1, 1, 1, 2])), "sched": sched, "lines": draw(st.booleans()) if sched else False,
            "gen2": draw(st.sampled_from([None, None, None, "local-close", "peer-fin", "peer-fin-mid-message"])),
            # virtual seconds between the arrival of consecutive segments (cycled); empty = everything is readable at once
            "gaps": draw(st.sampled_from([[], [], [0.004], [0.02], [0.011], [0.03, 0.004], [0.1, 0.004], [0.011, 0.0, 0.3]] if seg != "at-read-size" else
                                         [[0.02], [0.05], [0.3, 0.02]])),
            "consumers_first": draw(st.booleans()), "holds": draw(conc.holds(bias="consumer"))}


def build_stream(case):
    parts = []
    for i, m in enumerate(case["msgs"]):
        hbh, e2e = 1000 + i, 2000 + i
        pay = bytes((i + j) % 251 for j in range(m["size"]))
        if m["kind"] == "req":
            parts.append(("app", app_request(hbh, e2e, dest_realm=LOCAL["realm"], payload=pay)))
        elif m["kind"] == "ans":
            parts.append(("app", app_answer(hbh, e2e, payload=pay)))
        elif m["kind"] == "bare":
            parts.append(("app", rc.enc_msg(1, 0x40, 316, 16777251, hbh, e2e, [])))
        else:
            parts.append(("dwr", peer_dwr(hbh, e2e)))
        if m["kind"] != "dwr" and (m.get("t") or m.get("dup_of") is not None):
            k, p = parts[-1]
            b = bytearray(p)
            if m.get("t"):
                b[4] |= 0x10
            if m.get("dup_of") is not None:
                j = m["dup_of"]
                b[16:20] = (2000 + j).to_bytes(4, "big")
                if m.get("same_hbh"):
                    b[12:16] = (1000 + j).to_bytes(4, "big")
            parts[-1] = (k, bytes(b))
    return parts


def segmentation(case, parts):
    data = b"".join(p for _, p in parts)
    bounds = []
    pos = 0
    for _, p in parts:
        pos += len(p)
        bounds.append(pos)
    seg = case["seg"]
    if seg == "one":
        cuts = []
    elif seg == "aligned":
        cuts = bounds[:-1]
    elif seg == "coalesce-pairs":
        cuts = bounds[1:-1:2]
    elif seg == "header-prefix":
        # whole message(s) followed by only the first bytes (1..30) of the next message in the same read
        cuts = [b + case.get("hp", 1) for b in bounds[:-1]]
    elif seg == "in-header":
        cuts = sorted(set([b - len(p) + 7 for b, (_, p) in zip(bounds, parts)] + [b - len(p) + 19 for b, (_, p) in zip(bounds, parts)]))
    elif seg == "in-avp-header":
        cuts = sorted(set(b - len(p) + 20 + 5 for b, (_, p) in zip(bounds, parts)))
    elif seg == "at-read-size":
        cuts = list(range(case.get("chunk", 262144), len(data), case.get("chunk", 262144)))
    elif seg == "bytewise":
        cuts = list(range(1, min(len(data), 400)))
    else:
        cuts = [c % len(data) for c in case["cuts"]]
    cuts = sorted(set(c for c in cuts if 0 < c < len(data)))
    return data, cuts, bounds


def run_one(case):
    parts = build_stream(case)
    data, cuts, bounds = segmentation(case, parts)
    want = [p for k, p in parts if k == "app"]
    want_dwr = [rc.dec_stream(p)[0]["hbh"] for k, p in parts if k == "dwr"]
    got = []                  # (consumer, bytes)
    info = {}
    with World(role=case["role"], apps=["s6a"], line_preempt=case["lines"], line_holds=conc.wants_line_holds(case.get("holds"))) as w:
        if not w.open_connection():
            return [V("harness: connection setup failed", "harness/setup", w.state())], info
        if case.get("gen2") and not w.second_generation(case["gen2"]):
            return [V("the same node object can be started again", f"second-connection-failed/{case['gen2']}", w.state())], info

        def consumer(idx):
            def loop():
                while len(got) < len(want) + 2:
                    m = w.d.get_message()
                    if m is None:
                        return
                    got.append((idx, m.dump()))
            return loop

        def start_consumers():
            for i in range(case["consumers"]):
                w.call(f"consumer-{i}", consumer(i))
        if case["consumers_first"]:
            start_consumers()
            w.run(lambda: False, 0.01)
        # generated part
        w.sched.choices = list(case["sched"])
        w.sched.choice_i = 0
        conc.apply_holds(w, case.get("holds"))
        if case.get("gaps"):
            segs = [data[a:b] for a, b in zip([0] + cuts, cuts + [len(data)])]

            def peer_writer():
                for k, sg in enumerate(segs):
                    if k:
                        w.sched.point("sleep", pred=lambda: False, timeout=case["gaps"][(k - 1) % len(case["gaps"])])
                    w.feed(sg)
            w.call("peer-writer", peer_writer)
        else:
            w.feed(data, cuts)
        if not case["consumers_first"]:
            start_consumers()
        goal = lambda: len(got) >= len(want) and len([m for m in w._safe_sent() if m["cmd"] == 280]) >= len(want_dwr)
        # the peer needs sum(gaps) virtual seconds just to write the data; the delivery bound counts from there
        n_seg = len(cuts) + 1
        spread = sum(case["gaps"][(k - 1) % len(case["gaps"])] for k in range(1, n_seg)) if case.get("gaps") else 0.0
        r = w.run(goal, 12.0 + spread)
        # let any duplicate surface
        w.run(lambda: False, 1.5)
        info.update(steps=w.sched.steps, switches=w.sched.switches, line_switches=w.sched.line_switches, result=r,
                    deadlock=[(t.name, t.blocked_on) for t in w.sched.live_threads() if t.deadline is None and t.state == "blocked"])
        sent = w._safe_sent()
        world = w
    spans = _span_features(cuts, bounds)
    vs = []
    tagseg = "split" if "message-spans-reads" in spans else ("coalesced" if "messages-share-a-read" in spans else "aligned")
    recv = [b for _, b in got]
    if sorted(recv) != sorted(want):
        missing = len([x for x in want if x not in recv])
        extra = len(recv) - (len(want) - missing)
        if missing and not extra:
            kind = "lost"
        elif extra and not missing:
            kind = "duplicated-or-invented"
        else:
            kind = "lost-and-extra"
        vs.append(V("the application receives exactly the sent application messages, each once",
                    f"delivery/{kind}/{tagseg}/consumers={case['consumers']}",
                    f"{len(recv)}/{len(want)} delivered ({missing} missing, {extra} extra); run={info['result']}; blocked={info['deadlock']}"))
    else:
        for c in range(case["consumers"]):
            mine = [b for i, b in got if i == c]
            it = iter(want)
            if not all(any(x == y for y in it) for x in mine):
                vs.append(V("messages are delivered in the order sent", f"order/{tagseg}/consumers={case['consumers']}", f"consumer {c}"))
                break
    dwas = [m["hbh"] for m in sent if m["cmd"] == 280 and not m["flags"] & 0x80]
    if dwas != want_dwr and not any(v.sig.startswith("delivery/lost") for v in vs):
        vs.append(V("base-protocol messages are consumed by the state machine in the order sent", f"base-order/{tagseg}",
                    f"DWA ids {dwas}, DWR ids {want_dwr}"))
    if world.unreaped:
        raise RuntimeError(f"harness could not reap threads: {world.unreaped}")
    info["spans"] = spans
    return vs, info


def _span_features(cuts, bounds):
    f = set()
    starts = [0] + bounds[:-1]
    for s, e in zip(starts, bounds):
        if any(s < c < e for c in cuts):
            f.add("message-spans-reads")
    segs = [0] + cuts + [bounds[-1]]
    for a, b in zip(segs, segs[1:]):
        if sum(1 for s in starts if a <= s < b) >= 2:
            f.add("messages-share-a-read")
    return f


def run_case(case):
    return run_one(case)[0]


def _collect(shard, seed, n):
    common.bootstrap()
    from .. import refdict
    refdict.all_classes()
    col = Collector(PID, RULE)

    def body(case):
        vs, info = run_one(case)
        f = set(info.get("spans", ())) | {"role=" + case["role"], "seg=" + case["seg"], f"consumers={case['consumers']}"}
        if case["sched"] and any(case["sched"]):
            f.add("prefix-with-switch")
        if info.get("line_switches"):
            f.add("preempted-at-source-line")
        if case.get("holds"):
            f.add("targeted-delay")
            if conc.wants_line_holds(case.get("holds")):
                f.add("delay-between-source-lines")
        if case.get("gen2"):
            f.add("second-connection-of-the-object")
        if case.get("gaps"):
            f.add("segments-arrive-spaced-in-time")
        nt = bool(f & {"message-spans-reads", "messages-share-a-read"}) and "prefix-with-switch" in f
        if any(m.get("t") for m in case["msgs"]):
            f.add("t-flag")
        if any(m.get("dup_of") is not None for m in case["msgs"]):
            f.add("repeated-end-to-end-id")
        col.record(case, vs, nontrivial=nt, classes=sorted(f))
        col.extra["scheduling_steps"] = col.extra.get("scheduling_steps", 0) + info.get("steps", 0)
        col.extra["context_switches"] = col.extra.get("context_switches", 0) + info.get("switches", 0)
        col.extra["line_level_switches"] = col.extra.get("line_level_switches", 0) + info.get("line_switches", 0)

    common.hyp_collect(cases(), body, n, seed)
    return col


def _rendezvous_sweep(args):
    """Bounded exhaustive sweep: the consumer pauses at its n-th source line inside get_message() / get_postprocess_recv_message()
    until the state machine thread has signalled its next hand-over (so the signal lands between any test and the wait / clear
    that follows it); k messages arriving 20 ms apart, consumer started before or after the data."""
    role, func, first, nmax = args
    common.bootstrap()
    from .. import refdict
    refdict.all_classes()
    col = Collector(PID, RULE)
    for k in (1, 2, 3):
        for n in range(1, nmax + 1):
            for consumers in (1, 2):
                case = {"role": role, "msgs": [{"kind": "req", "size": 0}] * k, "seg": "aligned", "cuts": [], "hp": 1, "consumers": consumers,
                        "sched": [], "lines": False, "gen2": None, "gaps": [0.02], "consumers_first": first,
                        "holds": [["consumer-0", "line:" + func, n, 2.0, "PSM", "event.set"]]}
                vs, info = run_one(case)
                col.record(case, vs, nontrivial=True, classes=["rendezvous-sweep", "role=" + role, f"consumers={consumers}"])
    return col


def main(ctx):
    col = common.run_shards(_collect, 8 if ctx.quick else 16, ctx.seed, n=140 if ctx.quick else 2500)
    nmax = 10 if ctx.quick else 24
    jobs = [(role, func, first, nmax) for role in ("client", "server") for func in ("get_message", "get_postprocess_recv_message") for first in (False, True)]
    for part in common.pmap(_rendezvous_sweep, jobs):
        col.merge(part)
    col.extra["rendezvous_sweep"] = f"{len(jobs)} scenarios x 3 message counts x {nmax} line positions x 1-2 consumers"
    for path, rec in common.load_replays(PID):
        col.record(rec["case"], run_case(rec["case"]), nontrivial=True, classes=["replay"])
    ctx.required_classes = ["message-spans-reads", "messages-share-a-read", "prefix-with-switch", "preempted-at-source-line",
                            "role=client", "role=server", "consumers=2", "seg=bytewise", "seg=in-header", "seg=header-prefix", "seg=at-read-size", "t-flag", "repeated-end-to-end-id"]
    ctx.assumptions = ["controlled world: TCP only, fake socket calibrated on the sandbox kernel; schedules are sampled (random walk / "
                       "PCT-like prefixes, optional source-line preemption) and completed fairly; liveness is judged within 12 virtual seconds",
                       "with two consumers, order is judged per consumer"]

    def shrinker(sig, case):
        return common.hyp_shrink(cases(), lambda c: any(v.sig == sig for v in run_case(c)), ctx.seed, n=200, budget_s=60) or case
    ctx.shrinker = shrinker
    return col

"""C09 - typed command classes build exactly the command they name.

Generator : for each of the 50 classes (ref/commands.json): all mandatory
            arguments without default + a subset of the other tabled arguments
            + 0..2 untabled signature parameters given an AVP object + 0..2
            extra keyword AVPs; in-domain values (C01 value strategies);
            "omit one mandatory argument" cases.
Oracle    : ref/commands.json (command code / Application-ID / request bit from
            the RFCs and 3GPP TS, argument tables snapshotted and fixed), the
            reference dictionary and the reference encoder.
"""
import importlib
import json
import os
import platform
import socket

from hypothesis import strategies as st

from .. import common, gens, refdict
from .. import refcodec as rc
from ..common import V, Collector

PID = "C09"
RULE = ("typed command classes x generated argument assignments (mandatory + subset of optionals + untabled AVP objects + "
        "extra keyword AVPs), values in-domain per AVP class; non-trivial = at least one optional/untabled/extra argument "
        "supplied, or a mandatory argument omitted on purpose; distinct by SHA-1 of (class, assignment, values)")

_CMDS = None


def commands():
    global _CMDS
    if _CMDS is None:
        with open(os.path.join(common.VERIF, "ref", "commands.json")) as f:
            _CMDS = json.load(f)
    return _CMDS


def rec_of(lib, cls):
    for r in commands():
        if r["lib"] == lib and r["cls"] == cls:
            return r
    raise KeyError((lib, cls))


def cls_of(rec):
    common.bootstrap()
    return getattr(importlib.import_module(rec["module"]), rec["cls"])


APP_IDS = [16777251, 16777252, 16777264, 16777265, 16777272, 16777238, 16777236, 4, 1, 3, 2**32 - 1]


def _param_value(rec, p, depth=2):
    """strategy for the VAL of one tabled parameter."""
    if p["name"] == "auth_application_id" and isinstance(rec["app"], str) and rec["app"].startswith("arg:"):
        nz = st.sampled_from(APP_IDS)
        alts = [nz.map(lambda n: gens.bval(rc.ref_u32(n))), nz.map(lambda n: {"t": "i", "n": n})]
        if rec["cls"].startswith("DiameterEap"):
            alts.append(st.just(gens.bval(rc.ref_u32(0))))
        return st.one_of(alts)
    row = refdict.by_cls(p["avp"])
    base = gens.val_strategy(row, depth, max_members=2, generic="unknown")
    if p["avp"] == "SessionIdAVP":
        ident = st.sampled_from(["host.example.com", "mme.epc.mnc001.mcc001.3gppnetwork.org", "a", "hé.example"])
        return st.one_of(base, base, ident.map(lambda s: {"t": "sid", "s": s}))
    return base


extra_node = st.one_of(
    st.sampled_from(["UserNameAVP", "RouteRecordAVP", "ProxyInfoAVP", "SupportedFeaturesAVP", "OriginStateIdAVP",
                     "FramedIpAddressAVP", "SubscriptionIdAVP"]).flatmap(lambda c: gens.dict_node(c, 2, "unknown")),
    st.builds(lambda code, vendor, flags, v: {"k": "gen", "code": code, "vendor": vendor,
                                               "flags": (flags & 0x7f) | (0x80 if vendor is not None else 0), "v": v},
              st.integers(2**24, 2**32 - 1), st.one_of(st.none(), st.integers(1, 2**32 - 1)), st.integers(0, 127), gens.gen_data),
)


@st.composite
def typed_case(draw, rec=None, allow_omit=True):
    if rec is None:
        rec = draw(st.sampled_from(commands()))
    required = [p for p in rec["params"] if p["kind"] == "mandatory" and p["default"] is None]
    omit = None
    if allow_omit and required and draw(st.integers(0, 9)) == 0:
        omit = draw(st.sampled_from(required))["name"]
    mode = draw(st.sampled_from(["few", "few", "half", "all", "none"]))
    args = []
    n_untabled = 0
    for p in rec["params"]:
        if p["name"] == omit:
            continue
        if p["kind"] == "untabled":
            if n_untabled < 2 and draw(st.integers(0, 19)) == 0:
                n_untabled += 1
                args.append([p["name"], {"node": draw(extra_node)}])
            continue
        if p["kind"] == "mandatory" and p["default"] is None:
            give = True
        elif p["kind"] == "mandatory":
            give = draw(st.booleans())
        else:
            pr = {"few": 8, "half": 2, "all": 1, "none": 10**6}[mode]
            give = draw(st.integers(1, pr)) == 1
        if give:
            args.append([p["name"], draw(_param_value(rec, p))])
    extras = []
    for i in range(draw(st.sampled_from([0, 0, 0, 1, 2]))):
        extras.append([f"zz_extra_{i}", {"node": draw(extra_node)}])
    case = {"kind": "typed", "lib": rec["lib"], "cls": rec["cls"], "args": args, "extras": extras, "omit": omit}
    if rec["request"] and draw(st.integers(0, 5)) == 0:
        case["idsrc"] = "collide"
    if rec["app"] == "caller":
        case["hdr_app"] = draw(st.sampled_from(APP_IDS))
    return case


def _build_arg(v):
    if "node" in v:
        return gens.build_node(v["node"])
    if v["t"] == "sid":
        return v["s"]
    return gens.build_val(v)


ENV_DEFAULT = {"session_id": platform.node(), "origin_host": platform.node(), "origin_realm": socket.getfqdn()}


def _expected(rec, case):
    """-> list of entries: ("node", node) | ("dict", cls_name, data|None, prefix|None)"""
    given = {k: v for k, v in case["args"]}
    exp = []
    for p in rec["params"]:
        if p["name"] in given:
            v = given[p["name"]]
        elif p["default"] is None:
            continue
        elif p["default"] == "env":
            v = {"t": "sid", "s": ENV_DEFAULT[p["name"]]} if p["avp"] == "SessionIdAVP" else {"t": "s", "s": ENV_DEFAULT[p["name"]]}
        else:
            v = p["default"]
        if p["kind"] == "untabled":
            if "node" in v:
                exp.append(("node", v["node"]))
            continue
        row = refdict.by_cls(p["avp"])
        if v.get("t") == "sid":
            exp.append(("dict", p["avp"], None, (v["s"] + ";").encode("utf-8")))
        else:
            exp.append(("dict", p["avp"], gens.ref_data(row["type"], row["cls"], v), None))
    for k, v in case["extras"]:
        exp.append(("node", v["node"]))
    return exp


def _expected_app(rec, case):
    app = rec["app"]
    if app == "caller":
        return case["hdr_app"]
    if isinstance(app, str) and app.startswith("arg:"):
        name = app[4:]
        given = {k: v for k, v in case["args"]}
        v = given.get(name)
        if v is None:
            v = next(p["default"] for p in rec["params"] if p["name"] == name)
        return int.from_bytes(gens.ref_data("Unsigned32", None, v), "big")
    return app


class _colliding_ids:
    """While a typed request is built, the random source first repeats identifiers already handed out in this process (a request
    created just before holds them), then serves fresh ones: the class must still build a complete, decodable request."""
    def __init__(self, on):
        self.on = on

    def __enter__(self):
        if not self.on:
            return self
        import bromelia.base as base
        from .c15 import FakeOs
        self.base = base
        self.saved_os = base.os
        R = base.DiameterRequest
        self.saved_reg = (list(R.hop_by_hop_identifiers), list(R.end_to_end_identifiers))
        base.os = FakeOs([0x0A0B0C01, 0x0A0B0C02, 0x0A0B0C01, 0x0A0B0C02, 0x0A0B0C01, 0x0A0B0C02])
        R(command_code=1, application_id=0)
        return self

    def __exit__(self, *a):
        if not self.on:
            return False
        R = self.base.DiameterRequest
        self.base.os = self.saved_os
        R.hop_by_hop_identifiers[:] = self.saved_reg[0]
        R.end_to_end_identifiers[:] = self.saved_reg[1]
        return False


def check_typed(case):
    """-> (status, why, [V]) ; sigs starting with 'enc/' are pure encoding clauses (shared with C01)."""
    errors = common.lib_errors()
    rec = rec_of(case["lib"], case["cls"])
    cls = cls_of(rec)
    tag = f"{case['lib']}.{case['cls']}"
    try:
        kwargs = {k: _build_arg(v) for k, v in case["args"]}
        for k, v in case["extras"]:
            kwargs[k] = _build_arg(v)
    except (Exception,) + errors as e:
        return "discard", f"argument construction refused: {type(e).__name__}", []
    try:
        with _colliding_ids(case.get("idsrc") == "collide"):
            msg = cls(**kwargs)
    except errors as e:
        if case["omit"]:
            return "ok", None, []
        return "ok", None, [V("a valid assignment of constructor arguments builds a message",
                                f"ctor-raises/{tag}/{type(e).__name__}", repr(e))]
    except Exception as e:
        if case["omit"]:
            return "ok", None, [V("omitting a mandatory argument is rejected with a library error",
                                    f"omit-foreign-error/{tag}/{case['omit']}/{type(e).__name__}", repr(e))]
        return "ok", None, [V("a valid assignment of constructor arguments builds a message",
                                f"ctor-raises/{tag}/{type(e).__name__}", repr(e))]
    if case["omit"]:
        return "ok", None, [V("omitting a mandatory argument that has no default is rejected",
                                f"omit-accepted/{tag}/{case['omit']}", f"{tag} built without {case['omit']}")]
    vs = []
    if "hdr_app" in case:
        msg.header.application_id = rc.ref_u32(case["hdr_app"])     # documented step for base ASA/RAA
    want_app = _expected_app(rec, case)
    try:
        dump = msg.dump()
        hdr = rc.dec_stream(dump)[0] if len(dump) >= 20 else None
    except rc.RefDecodeError as e:
        return "ok", None, [V("serialised typed message is well-formed", f"enc/undecodable/{tag}", repr(e))]
    except (Exception,) + errors as e:
        return "ok", None, [V("serialised typed message is well-formed", f"enc/dump-raises/{tag}/{type(e).__name__}", repr(e))]
    # ---- header
    if hdr["cmd"] != rec["code"]:
        vs.append(V("command code of the command", f"hdr/code/{tag}", f"{hdr['cmd']} != {rec['code']}"))
    if hdr["app"] != want_app:
        vs.append(V("Application-ID of the command", f"hdr/app/{tag}", f"{hdr['app']} != {want_app}"))
    if bool(hdr["flags"] & 0x80) != rec["request"]:
        vs.append(V("R flag of the command", f"hdr/R/{tag}", f"flags {hdr['flags']:#x}"))
    if bool(hdr["flags"] & 0x40) != (want_app != 0):
        vs.append(V("P flag exactly when Application-ID is non-zero", f"hdr/P/{tag}", f"flags {hdr['flags']:#x} app {want_app}"))
    if hdr["flags"] & 0x3f:
        vs.append(V("no other command flag set", f"hdr/otherflags/{tag}", f"flags {hdr['flags']:#x}"))
    if hdr["version"] != 1:
        vs.append(V("version 1", f"hdr/version/{tag}", str(hdr["version"])))
    if msg.header.get_length() != len(dump):
        vs.append(V("Message Length equals serialised size", f"enc/msg-length/{tag}", f"{msg.header.get_length()} vs {len(dump)}"))
    # ---- AVPs
    exp = _expected(rec, case)
    avps = list(msg.avps)
    if len(avps) != len(exp):
        names = [type(a).__name__ for a in avps]
        vs.append(V("one AVP per supplied/defaulted argument, extras last", f"avps/count/{tag}",
                    f"got {names} expected {[e[1] if e[0]=='dict' else 'node' for e in exp]}"))
    else:
        ref_body = b""
        for i, (a, e) in enumerate(zip(avps, exp)):
            if e[0] == "node":
                want = gens.ref_node(e[1])
                if a.dump() != want:
                    vs.append(V("untabled/extra AVP objects are carried unchanged in order", f"avps/extra/{tag}", f"pos {i}"))
                ref_body += want
                continue
            _, cname, data, prefix = e
            row = refdict.by_cls(cname)
            if type(a).__name__ != cname:
                vs.append(V("argument carried by an AVP of the corresponding dictionary class, in constructor order",
                            f"avps/class/{tag}/{cname}", f"pos {i}: {type(a).__name__} != {cname}"))
                continue
            adata = a.data or b""
            if prefix is not None:
                if not adata.startswith(prefix):
                    vs.append(V("generated Session-Id starts with the identity", f"avps/sid/{tag}", repr(adata[:60])))
                want = rc.enc_avp(row["code"], row["flags"], row["vendor"], adata)
            else:
                if adata != data:
                    vs.append(V("argument value carried by the AVP", f"avps/data/{tag}/{cname}", f"{adata.hex()[:80]} != {data.hex()[:80]}"))
                want = rc.enc_avp(row["code"], row["flags"], row["vendor"], data)
            if a.dump() != want:
                vs.append(V("each AVP is encoded per RFC 6733", f"enc/avp-bytes/{row['type']}/{cname}", f"{a.dump().hex()[:100]} != {want.hex()[:100]}"))
            ref_body += want
        if not vs and dump[20:] != ref_body:
            vs.append(V("AVPs follow the header in order", f"enc/body/{tag}", ""))
    # mandatory exactly once
    for p in rec["params"]:
        if p["kind"] == "mandatory":
            n = sum(1 for a in avps if type(a).__name__ == p["avp"])
            extra_same = sum(1 for e in exp if e[0] == "node" and e[1].get("cls") == p["avp"])
            other_same = sum(1 for q in rec["params"] if q is not p and q["avp"] == p["avp"] and any(k == q["name"] for k, _ in case["args"]))
            if n != 1 + extra_same + other_same:
                vs.append(V("every mandatory AVP present exactly once", f"avps/mandatory/{tag}/{p['name']}", f"{p['avp']} x{n}"))
    # round trip
    try:
        from bromelia.base import DiameterMessage
        back = DiameterMessage.load(dump)
        if len(back) != 1 or back[0].dump() != dump:
            vs.append(V("built message survives a serialise/decode round trip", f"roundtrip/{tag}",
                        f"{len(back)} messages; equal={back[0].dump() == dump if back else None}"))
        else:
            # the application edits the decoded copy in place (a relay rewriting identities); the same bytes decoded again - and the
            # message that was built - are unaffected: decoded messages do not share AVP objects with one another
            edited = 0
            for a in back[0].avps:
                if type(a).__name__ in ("OriginHostAVP", "OriginRealmAVP", "DestinationHostAVP", "DestinationRealmAVP", "UserNameAVP", "SessionIdAVP"):
                    a.data = b"edited.in.place"
                    edited += 1
            again = DiameterMessage.load(dump)
            if len(again) != 1 or again[0].dump() != dump or msg.dump() != dump:
                vs.append(V("built message survives a serialise/decode round trip - also after an earlier decoded copy was edited in place",
                            f"roundtrip-after-edit/{tag}", f"{edited} AVPs of the first decoded copy were edited; second decode equal={again[0].dump() == dump if again else None}"))
    except (Exception,) + errors as e:
        vs.append(V("built message survives a serialise/decode round trip", f"roundtrip-raises/{tag}/{type(e).__name__}", repr(e)))
    return "ok", None, vs


def check_encoding(case):
    return [v for v in check_typed(case)[2] if v.sig.startswith("enc/")]


def check_partners():
    """request/answer classes agree on command code and Application-ID (built with minimal valid arguments)."""
    vs = []
    recs = commands()
    for r in recs:
        if not r["request"]:
            continue
        partner = next((a for a in recs if a["lib"] == r["lib"] and a["cls"] == r["cls"].replace("Request", "Answer")), None)
        if partner is None:
            vs.append(V("request class has an answer class", f"partner/missing/{r['lib']}.{r['cls']}", ""))
            continue
        if r["code"] != partner["code"]:
            vs.append(V("partners agree on command code", f"partner/code/{r['lib']}.{r['cls']}", ""))
    return vs


def run_case(case):
    if case.get("kind") == "partners":
        return check_partners()
    return check_typed(case)[2]


def _features(case, rec):
    tab = {p["name"]: p for p in rec["params"]}
    f = {"typed", "lib=" + case["lib"]}
    if case["omit"]:
        f.add("omit-mandatory")
    if case["extras"]:
        f.add("extra-kwargs")
    if case.get("idsrc") == "collide":
        f.add("identifier-collision-on-first-draw")
    for k, v in case["args"]:
        if tab[k]["kind"] == "optional":
            f.add("optional-arg")
        if tab[k]["kind"] == "untabled":
            f.add("untabled-arg")
        if isinstance(v, dict) and v.get("t") == "sid":
            f.add("session-id-from-identity")
    return f


def _collect(shard, seed, per_class, pid, rule, encoding_only, of):
    common.bootstrap()
    refdict.all_classes()
    col = Collector(pid, rule)
    for i, rec in enumerate(commands()):
        if i % of != shard:
            continue

        def body(case, rec=rec):
            status, why, vs = check_typed(case)
            if encoding_only:
                vs = [v for v in vs if v.sig.startswith("enc/")]
            f = _features(case, rec)
            nt = bool(f & {"optional-arg", "untabled-arg", "extra-kwargs", "omit-mandatory"}) and status == "ok"
            col.record(case, vs, nontrivial=nt, classes=sorted(f), discard=why)
            col.classes[f"cmd:{rec['lib']}.{rec['cls']}"] += 1

        common.hyp_collect(typed_case(rec, allow_omit=not encoding_only), body, per_class, seed + i)
    return col


def collect_encoding(ctx, pid, rule):
    """Typed classes through the encoding oracle only (used by C01)."""
    per = 6 if ctx.quick else 120
    col = common.run_shards(_collect, 8 if ctx.quick else 16, ctx.seed, per_class=per, pid=pid, rule=rule,
                            encoding_only=True, of=8 if ctx.quick else 16)
    for k in [k for k in col.classes if k.startswith("cmd:") or k.startswith("lib=")]:
        del col.classes[k]
    return col


def main(ctx):
    per = 40 if ctx.quick else 900
    n = 10 if ctx.quick else 16
    col = common.run_shards(_collect, n, ctx.seed, per_class=per, pid=PID, rule=RULE, encoding_only=False, of=n)
    seen = [k for k in col.classes if k.startswith("cmd:")]
    if len(seen) != 50:
        raise AssertionError(f"expected 50 command classes, exercised {len(seen)}")
    col.extra["command_classes_exercised"] = len(seen)
    col.extra["min_cases_per_class"] = min(col.classes[k] for k in seen)
    for k in seen:
        del col.classes[k]
    col.record({"kind": "partners"}, check_partners(), nontrivial=False, classes=["partners"])
    # class inventory of the tree must be the 50 classes of the reference (a 51st class would be unchecked)
    import pkgutil
    import bromelia
    from bromelia.base import DiameterMessage
    found = set()
    for m in pkgutil.walk_packages(bromelia.__path__, "bromelia."):
        if m.name.startswith("bromelia.lib.") and m.name.endswith(".messages"):
            mod = importlib.import_module(m.name)
            for name, c in vars(mod).items():
                if isinstance(c, type) and issubclass(c, DiameterMessage) and c.__module__ == m.name:
                    found.add((m.name.split(".")[2], name))
    ref = {(r["lib"], r["cls"]) for r in commands()}
    if found != ref:
        col.record({"kind": "inventory"}, [V("every typed command class is covered by the reference table",
                                             "inventory/" + ",".join(sorted(f"{a}.{b}" for a, b in found ^ ref)), "")])
    for path, rec in common.load_replays(PID):
        col.record(rec["case"], run_case(rec["case"]), nontrivial=True, classes=["replay"])
    ctx.required_classes = ["optional-arg", "untabled-arg", "extra-kwargs", "omit-mandatory", "session-id-from-identity", "identifier-collision-on-first-draw"]
    ctx.assumptions = ["ref/commands.json: command code / Application-ID / request bit written from RFC 6733, RFC 4006, RFC 4072 and 3GPP TS "
                       "29.272/29.273/29.212/29.214/32.299; argument tables are a fixed snapshot of the pinned tree",
                       "base-protocol ASA/RAA: Application-ID is caller-supplied (documented header assignment applied, non-zero ids only)"]

    def shrinker(sig, case):
        if case.get("kind") != "typed":
            return case
        rec = rec_of(case["lib"], case["cls"])
        return common.hyp_shrink(typed_case(rec), lambda c: any(v.sig == sig for v in run_case(c)), ctx.seed, n=800, budget_s=40) or case
    ctx.shrinker = shrinker
    return col

"""C08 - every way a connection ends leaves the node closed, released and restartable.

Generator : cause in {local close, valid DPR from the peer, peer FIN, peer RST,
            refused connection} x life point in {connecting, CER sent / awaiting
            CEA, server awaiting CER, idle Open, Open with queued inbound, Open
            with queued outbound, consumer blocked in get_message(), Closing} x
            role x schedule prefix (+ fair completion).
Oracle    : at fair completion (virtual horizon): state Closed; every socket the
            node created is closed and no selector registration is left; every
            library thread has finished; the blocked get_message() returned; then
            start() on the same object succeeds and a fresh handshake reaches Open.
"""
from hypothesis import strategies as st

from .. import common, conc
from .. import refcodec as rc
from ..common import V, Collector
from ..world import World, LOCAL, app_request, peer_dpr, peer_dpa, peer_cea

PID = "C08"
RULE = ("(termination cause, life point, role, schedule) cases in the controlled world; non-trivial = the cause is not an idle local "
        "close, or a consumer / queued traffic is involved; and the run was driven by a generated schedule prefix or reached a "
        "non-Open life point; distinct by SHA-1 of the case record")

# which (life point, cause) pairs make sense per role
CLIENT = {
    "connecting": ["refused"],
    "wait-cea": ["peer-fin", "peer-rst", "non-cea"],
    "open-idle": ["local-close", "peer-dpr", "peer-dpr-busy", "peer-fin", "peer-rst", "peer-timeout", "host-unreachable"],
    "open-partial-inbound": ["peer-fin", "peer-rst", "peer-timeout"],      # the peer dies in the middle of a message
    "open-inbound-queued": ["local-close", "peer-dpr", "peer-fin", "peer-rst"],
    "open-outbound-queued": ["local-close", "peer-dpr", "peer-fin", "peer-rst"],
    "open-consumer-blocked": ["local-close", "peer-dpr", "peer-dpr-busy", "peer-fin", "peer-rst"],
    # two application threads loop in get_message(); a message is delivered right before the connection ends
    "open-two-consumers": ["local-close", "peer-dpr", "peer-fin", "peer-rst", "peer-timeout"],
    "closing": ["peer-fin", "peer-rst"],
    # the state machine thread is in the middle of handling a base request of the peer (parked at its n-th source line) when the
    # application calls close()
    "open-handling-base-request": ["local-close"],
}
SERVER = dict(CLIENT)
SERVER.pop("connecting")
SERVER.pop("wait-cea")
SERVER["server-wait-cer"] = ["peer-fin", "peer-rst"]


@st.composite
def cases(draw):
    role = draw(st.sampled_from(["client", "server"]))
    table = CLIENT if role == "client" else SERVER
    point = draw(st.sampled_from(sorted(table)))
    cause = draw(st.sampled_from(table[point]))
    sched = draw(conc.schedules(250))
    if point == "open-handling-base-request":
        return {"role": role, "point": point, "cause": cause, "sched": [], "lines": False, "n_queued": draw(st.integers(1, 4)), "holds": None,
                "n_line": draw(st.integers(1, 400))}
    return {"after_dpa": draw(st.sampled_from([None, None, "dwr", "app"])) if cause == "local-close" else None,
            "role": role, "point": point, "cause": cause, "sched": sched, "lines": draw(st.booleans()) if sched else False,
            "n_queued": draw(st.integers(1, 4)), "holds": draw(conc.holds(bias="two-consumers" if point == "open-two-consumers" else None))}


def run_one(case):
    info = {}
    role, point, cause = case["role"], case["point"], case["cause"]
    got = []
    vs = []
    with World(role=role, apps=["s6a"], line_preempt=case["lines"], max_steps=800000,
               line_holds=conc.wants_line_holds(case.get("holds")) or point == "open-handling-base-request") as w:
        consumer_ct = None
        consumer_cts = []
        # ---------------- reach the life point (fair schedule)
        if point == "connecting":
            w.net.connect_policy = "manual"
            w.start()
            w.run(lambda: bool(w.net.pending_connects), 5.0)
            if not w.net.pending_connects:
                return [V("harness: no connect attempt", "harness/setup", "")], info
        elif point == "wait-cea":
            w.net.connect_policy = "ack"
            w.start()
            w.run(lambda: any(m["cmd"] == 257 for m in w._safe_sent()), 5.0)
        elif point == "server-wait-cer":
            w.start()
            w.run(lambda: bool(w.net.listeners), 5.0)
            w.net.peer_connect(w.net.listeners[-1])
            w.run(lambda: w.sock is not None and w.d._association.transport is not None and w.d._association.transport.is_connected
                  and w.sock in w.d._association.transport.selector.get_map(), 5.0)
        else:
            if not w.open_connection():
                return [V("harness: connection setup failed", "harness/setup", w.state())], info
            if point == "open-consumer-blocked":
                consumer_ct = w.call("consumer-0", lambda: got.append(w.d.get_message()))
                w.run(lambda: consumer_ct.state == "blocked", 1.0)
            if point == "open-two-consumers":
                def loop():
                    while True:
                        m = w.d.get_message()
                        if m is None:
                            return
                        got.append(m)
                # consumer-0 is already waiting; consumer-1 calls get_message() only after the generated delays are in place
                consumer_cts = [w.call("consumer-0", loop)]
                w.run(lambda: all(c.state == "blocked" for c in consumer_cts), 1.0)
                two_loop = loop
            if point == "closing":
                w.call("closer", lambda: w.d.close())
                w.run(lambda: any(m["cmd"] == 282 for m in w._safe_sent()), 5.0)
        sock = w.sock
        early = []
        left = [w.state() != "Closed"]

        def hook(cur, kind):
            st_now = w.state()
            if st_now != "Closed":
                left[0] = True
            elif left[0] and not early and sock is not None and not sock.closed:
                # the state machine has been out of Closed and reports Closed again while the connection socket is open
                early.append((kind, cur.name, [sock.fd]))
        w.sched.step_hook = hook
        # ---------------- generated part: the cause, under the generated schedule prefix
        w.sched.choices = list(case["sched"])
        w.sched.choice_i = 0
        conc.apply_holds(w, case.get("holds"))
        if point == "open-partial-inbound":
            # the connection ends in the middle of an inbound message (the receive worker has already taken the first half)
            whole = app_request(3100, 4100, dest_realm=LOCAL["realm"], payload=bytes(40 * case["n_queued"]))
            w.feed(whole[:len(whole) // 2])
            w.run(lambda: False, 0.3)
        if point == "open-two-consumers":
            consumer_cts.append(w.call("consumer-1", two_loop))
            w.run(lambda: False, 0.01)
            for i in range(case["n_queued"] % 3):
                w.feed(app_request(3200 + i, 4200 + i, dest_realm=LOCAL["realm"]))
            if case["n_queued"] % 3:
                # the message is handed over (the consumers are on their way through the delivery API) before the connection ends
                w.run(lambda: False, [0.02, 0.05, 0.2][case["n_queued"] % 3])
        if point == "open-inbound-queued":
            for i in range(case["n_queued"]):
                w.feed(app_request(3000 + i, 4000 + i, dest_realm=LOCAL["realm"]))
        if point == "open-outbound-queued":
            from . import c05
            msgs = c05.build_msgs({"subs": [{"msgs": [{"kind": "req", "size": 100}] * case["n_queued"]}]})[0]
            w.call("submitter", lambda: [w.d.send_message(m) for m in msgs])
        if point == "open-handling-base-request":
            from ..world import peer_dwr, peer_cer
            req = [peer_dwr(0x0D0D0001, 0x0E0E0001), peer_cer(0x0D0D0002, 0x0E0E0002), peer_dwr(0x0D0D0003, 0x0E0E0003) + peer_dwr(0x0D0D0004, 0x0E0E0004),
                   app_request(3300, 4300, dest_realm=LOCAL["realm"])][case["n_queued"] % 4]
            w.feed(req)
            q = w.d._association._recv_messages
            w.run(lambda: len(getattr(q, "_d", ())) > 0, 1.0)
            before = w.sched.holds_taken
            # parked until close() has returned in the application thread (or one virtual second has passed)
            w.sched.hold(f"{role}_psm_thread", "line:*", case["n_line"], ("until", "closer", "thread.exit"), 1.0)
            w.run(lambda: w.sched.holds_taken > before, 1.0)
            info["parked"] = w.sched.holds_taken > before
        if cause == "refused":
            w.net.nack(w.net.pending_connects[-1])
        elif cause == "local-close":
            w.call("closer", lambda: w.d.close())
        elif cause == "peer-dpr":
            w.feed(peer_dpr(0x0d0d0d0d, 0x0e0e0e0e))
        elif cause == "peer-fin":
            w.net.peer_fin(sock)
        elif cause == "peer-dpr-busy":
            # a DPR with another Disconnect-Cause (BUSY); the peer then waits for the node to act instead of dropping TCP
            from ..world import peer_dpr as _pd
            w.feed(_pd(0x0D0D0D01, 0x0D0D0D02, cause=1 + case["n_queued"] % 2))
        elif cause == "peer-rst":
            w.net.peer_rst(sock)
        elif cause == "peer-timeout":
            import errno
            w.net.peer_vanishes(sock, errno.ETIMEDOUT)
        elif cause == "host-unreachable":
            import errno
            w.net.peer_vanishes(sock, errno.EHOSTUNREACH)
        elif cause == "non-cea":
            w.feed(app_request(1, 2, dest_realm=LOCAL["realm"]))
        answered_dpr = [False]

        def cooperative_peer():
            # a conformant peer answers the node's DPR with a DPA (once)
            if cause in ("local-close",) and not answered_dpr[0]:
                dprs = [m for m in w._safe_sent() if m["cmd"] == 282 and m["flags"] & 0x80]
                if dprs:
                    answered_dpr[0] = True
                    w.feed(peer_dpa(dprs[0]["hbh"], dprs[0]["e2e"]))
                    answered_dpr.append(w.sched.now)
            if case.get("after_dpa") and len(answered_dpr) == 2 and w.sched.now > answered_dpr[1] + 0.5:
                # one more message of the peer that was already on its way arrives half a second after its DPA
                answered_dpr.append("sent")
                if sock is not None and not sock.closed:
                    from ..world import peer_dwr
                    w.feed(peer_dwr(0x0D0D0D77, 0x0E0E0E77) if case["after_dpa"] == "dwr" else app_request(3900, 4900, dest_realm=LOCAL["realm"]), sock=sock)
            return False

        def ended():
            cooperative_peer()
            return w.state() == "Closed" and not w.sched.live_threads()
        r = w.run(ended, 30.0)
        info.update(result=r, steps=w.sched.steps, switches=w.sched.switches, line_switches=w.sched.line_switches)
        live = [(t.name, t.blocked_on or t.state) for t in w.sched.live_threads()]
        tag = f"{point}/{cause}"
        w.sched.step_hook = None
        if early:
            vs.append(V("Closed is reported only once the sockets have been released", f"closed-reported-before-release/{role}",
                        f"at a '{early[0][0]}' point of {early[0][1]}: state Closed while fds {early[0][2]} were still open"))
        if w.state() != "Closed":
            vs.append(V("the node reaches Closed", f"not-closed/{tag}/{role}", f"state {w.state()} after 30 virtual s; live threads {live}"))
        else:
            lib_live = [(n, b) for n, b in live if not n.startswith(("consumer", "submitter", "closer", "app-start"))]
            if lib_live:
                vs.append(V("all of the node's worker threads terminate", f"threads-alive/{tag}/{role}", str(lib_live)))
            open_socks = [s.fd for s in w.net.socks if s.state not in ("new",) and not s.closed]
            regs = [len(sel._map) for sel in w.net.selectors if sel._map]
            if open_socks or regs:
                vs.append(V("the node releases its sockets", f"sockets-open/{tag}/{role}", f"open fds {open_socks}, selector registrations {regs}"))
            if consumer_ct is not None and consumer_ct.state != "finished":
                vs.append(V("application calls blocked waiting for a message return", f"consumer-blocked/{tag}/{role}", str(consumer_ct)))
            stuck = [c.name for c in consumer_cts if c.state != "finished"]
            if stuck:
                vs.append(V("application calls blocked waiting for a message return", f"consumer-blocked/{tag}/{role}", str(stuck)))
            app_live = [(n, b) for n, b in live if n.startswith(("submitter", "closer", "app-start"))]
            if app_live:
                vs.append(V("local API calls return", f"api-call-blocked/{tag}/{role}", str(app_live)))
        if not vs:
            # ---------------- restart on the same object
            try:
                ok = w.open_connection(name="app-restart")
            except rc.RefDecodeError as e:
                ok = False
            err = w.results.get("app-restart")
            if not ok:
                vs.append(V("the same node object can be started again", f"restart-failed/{tag}/{role}",
                            f"state {w.state()}, start() result {err!r}"))
            else:
                # the new connection works in both directions (nothing of the old one gets in its way)
                from . import c05
                probe = c05.build_msgs({"subs": [{"msgs": [{"kind": "req", "size": 9}]}]})[0][0]
                nsock = w.sock
                got2 = []

                def consume2():
                    while True:
                        m = w.d.get_message()
                        if m is None:
                            return
                        got2.append(m.header.get_hop_by_hop())
                w.call("consumer-after-restart", consume2)
                w.call("submitter-after-restart", lambda: w.d.send_message(probe))
                w.feed(app_request(0x7E577E57, 0x0BADCAFE, dest_realm=LOCAL["realm"]))
                w.run(lambda: probe.dump() in bytes(nsock.outbox) and 0x7E577E57 in got2, 6.0)
                if w.state() in ("I-Open", "R-Open"):
                    if probe.dump() not in bytes(nsock.outbox):
                        vs.append(V("the restarted node sends", f"restart-send-stuck/{tag}/{role}", f"state {w.state()}"))
                    if 0x7E577E57 not in got2:
                        vs.append(V("the restarted node delivers", f"restart-delivery-stuck/{tag}/{role}", f"delivered {got2}; state {w.state()}"))
                else:
                    vs.append(V("the restarted connection stays open for ordinary traffic", f"restart-dropped/{tag}/{role}", f"state {w.state()}"))
        world = w
    if world.unreaped:
        raise RuntimeError(f"harness could not reap threads: {world.unreaped}")
    return vs, info


def run_case(case):
    return run_one(case)[0]


def _collect(shard, seed, n):
    common.bootstrap()
    from .. import refdict
    refdict.all_classes()
    col = Collector(PID, RULE)

    def body(case):
        vs, info = run_one(case)
        f = {"role=" + case["role"], "point=" + case["point"], "cause=" + case["cause"]}
        if case["sched"] and any(case["sched"]):
            f.add("prefix-with-switch")
        if info.get("line_switches"):
            f.add("preempted-at-source-line")
        if case.get("holds"):
            f.add("targeted-delay")
            if conc.wants_line_holds(case.get("holds")):
                f.add("delay-between-source-lines")
        nt = not (case["point"] == "open-idle" and case["cause"] == "local-close")
        if case.get("after_dpa"):
            f.add("peer-sends-one-more-message-after-its-dpa")
        col.record(case, vs, nontrivial=nt, classes=sorted(f))

    common.hyp_collect(cases(), body, n, seed)
    return col


def _rendezvous_sweep(args):
    """Bounded exhaustive sweep of a two-consumer rendezvous: consumer-0 (already waiting, woken by a message delivered right before
    the end) pauses at its n1-th source line inside get_postprocess_recv_message() / get_message() until the state machine thread
    signals again (the close); consumer-1 (just entering get_message()) pauses at its n2-th line until consumer-0 has cleared the
    event - every (n1, n2) up to the bound."""
    role, cause, a, nmax = args
    common.bootstrap()
    from .. import refdict
    refdict.all_classes()
    col = Collector(PID, RULE)
    for n1 in range(1, nmax + 1):
        for n2 in range(1, 7):
            case = {"role": role, "point": "open-two-consumers", "cause": cause, "sched": [], "lines": False, "n_queued": 1,
                    "holds": [["consumer-0", "line:" + ("get_postprocess_recv_message" if a == 0 else "get_message"), n1, 2.0, "PSM", "event.set"],
                              ["consumer-1", "line:get_message", n2, 2.0, "consumer-0", "event.clear"]]}
            vs, info = run_one(case)
            col.record(case, vs, nontrivial=True, classes=["rendezvous-sweep", "point=open-two-consumers", "cause=" + cause, "role=" + role])
    return col


def _mid_handler_sweep(args):
    """close() called while the state machine thread is parked at its n-th source line after a base request (or an application
    request) of the peer has reached its queue - every n of the given list"""
    role, kind, ns = args
    common.bootstrap()
    from .. import refdict
    refdict.all_classes()
    col = Collector(PID, RULE)
    for n in ns:
        case = {"role": role, "point": "open-handling-base-request", "cause": "local-close", "sched": [], "lines": False, "n_queued": kind, "holds": None, "n_line": n}
        vs, info = run_one(case)
        col.record(case, vs, nontrivial=bool(info.get("parked")), classes=["mid-handler-sweep", "point=open-handling-base-request", "cause=local-close", "role=" + role])
    return col


def main(ctx):
    col = common.run_shards(_collect, 8 if ctx.quick else 16, ctx.seed, n=80 if ctx.quick else 2500)
    ns = list(range(1, 331, 3 if ctx.quick else 1))
    mh = [(role, kind, ns[i::4]) for role in ("client", "server") for kind in ((0, 1) if ctx.quick else (0, 1, 2, 3)) for i in range(4)]
    for part in common.pmap(_mid_handler_sweep, mh):
        col.merge(part)
    col.extra["mid_handler_sweep"] = f"close() with the state machine thread parked at line n of handling an inbound request: {len(ns)} line positions x {len(mh) // 4} (role, request kind)"
    nmax = 12 if ctx.quick else 20
    jobs = [(role, cause, a, nmax) for role in ("client", "server") for cause in ("peer-fin", "local-close", "peer-dpr", "peer-rst") for a in (0, 1)]
    for part in common.pmap(_rendezvous_sweep, jobs):
        col.merge(part)
    col.extra["rendezvous_sweep"] = f"{len(jobs)} scenarios x {nmax}x6 (n1, n2) pairs"
    for path, rec in common.load_replays(PID):
        col.record(rec["case"], run_case(rec["case"]), nontrivial=True, classes=["replay"])
    ctx.required_classes = ["peer-sends-one-more-message-after-its-dpa", "prefix-with-switch", "role=client", "role=server"] + ["point=" + p for p in set(CLIENT) | set(SERVER)] + \
                           ["cause=" + c for c in ("local-close", "peer-dpr", "peer-fin", "peer-rst", "refused", "peer-timeout", "host-unreachable", "peer-dpr-busy")]
    ctx.assumptions = ["controlled world; 'terminates' is judged within 30 virtual seconds of the cause under fair completion",
                       "a conformant peer answers the node's DPR with a DPA for cause=local-close; for life point 'closing' the peer "
                       "disconnects instead of answering"]
    ctx.shrinker = lambda sig, case: common.hyp_shrink(cases(), lambda c: any(v.sig == sig for v in run_case(c)), ctx.seed, n=150, budget_s=60) or case
    return col

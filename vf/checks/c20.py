"""C20 - typed AVP value accessors agree with the wire data for every value.

bits      : boundary word set x indices 0..31 exhaustively (+ random words) on
            a vendor and a non-vendor Unsigned32 class; oracle = big-endian
            integer arithmetic.
addresses : IPv4/IPv6 literals by structure; oracle = socket.inet_pton.
time      : naive datetimes 1900..2036, built while the process time zone is the
            default or one of 6 POSIX TZ strings (fixed offsets and DST rules);
            oracle = integer seconds since 1900 (independent of the zone).
"""
import datetime
import socket
import struct

from hypothesis import strategies as st

from .. import common, gens, refdict
from .. import refcodec as rc
from ..common import V, Collector

PID = "C20"
RULE = ("(word, bit, op) triples: fixed boundary word set x 32 indices x {test,set,unset} enumerated exhaustively plus random words "
        "and out-of-range indices; address literals by structure; datetimes 1900..2036. non-trivial = bit index adjacent to a byte "
        "boundary (7/8, 15/16, 23/24) or word with >= 2 bits set; compressed or IPv4-mapped IPv6 literal; instant in the last "
        "representable day or with a sub-second part. distinct by the case itself")

WORDS = sorted(set([0, 2**32 - 1, 0xAAAAAAAA, 0x55555555, 0x00FF00FF, 0xFF00FF00, 0x0000FFFF, 0xFFFF0000, 0x80000001,
                    0x00800100, 0x01000080, 0x7FFFFFFF, 0x00010000, 0x0000FF00, 0x00FF0000, 0x01020408]
                   + [1 << i for i in range(32)] + [(2**32 - 1) ^ (1 << i) for i in range(32)]))
BIT_CLASSES = ["UlrFlagsAVP", "FeatureListAVP", "SessionTimeoutAVP"]
ADDR_CLASSES = ["HostIpAddressAVP", "UeLocalIpAddressAVP", "AnGwAddressAVP", "AccessNetworkChargingAddressAVP"]
TIME_CLASSES = ["EventTimestampAVP", "TariffTimeChangeAVP"]


def check_bits_history(cls_name, w0, ops):
    """One flag-word AVP object through a history of bit operations and direct assignments of `data`: after every step the
    accessors must agree with the word the AVP carries now (integer model)."""
    common.bootstrap()
    from bromelia.exceptions import DiameterTypeError
    cls = refdict.cls_obj(cls_name)
    errors = common.lib_errors()
    try:
        avp = cls(w0)
    except (Exception,) + errors as e:
        return [V("Unsigned32 AVP built from a 32-bit word", f"bits/ctor-raises/{type(e).__name__}", f"{cls_name}({w0}): {e!r}")]
    w = w0
    for step, op in enumerate(ops):
        k = op["op"]
        try:
            if k == "assign":
                avp.data = struct.pack(">I", op["w"])
                w = op["w"]
            elif k == "test":
                r = avp.is_bit_set(op["i"])
                if bool(r) != bool((w >> op["i"]) & 1):
                    return [V("is_bit_set(i) reads bit i of the word the AVP carries now", "bits/history/test-wrong",
                              f"{cls_name}({w0:#x}) ops {ops[:step + 1]}: bit {op['i']} of {w:#x} reported {r}")]
            else:
                bit = (w >> op["i"]) & 1
                redundant = (k == "set" and bit) or (k == "unset" and not bit)
                try:
                    (avp.set_bit if k == "set" else avp.unset_bit)(op["i"])
                    if redundant:
                        return [V("redundant set/clear is rejected", f"bits/history/{k}/redundant-accepted", f"ops {ops[:step + 1]} on {w:#x}")]
                    w = (w | (1 << op["i"])) if k == "set" else (w & ~(1 << op["i"]))
                except DiameterTypeError:
                    if not redundant:
                        return [V("a set/clear that changes the bit is accepted", f"bits/history/{k}/refused",
                                  f"{cls_name}({w0:#x}) ops {ops[:step + 1]}: word is {w:#x}")]
        except (Exception,) + errors as e:
            return [V("bit accessors raise only the library's type error", f"bits/history/{k}/foreign-{type(e).__name__}", f"ops {ops[:step + 1]}: {e!r}")]
        if avp.data != struct.pack(">I", w):
            return [V("data is the big-endian word after every operation", f"bits/history/data-after-{k}",
                      f"{cls_name}({w0:#x}) ops {ops[:step + 1]}: data {avp.data.hex()} want {w:#010x}")]
    return []


def check_bits(cls_name, w, i, op):
    common.bootstrap()
    from bromelia.exceptions import DiameterTypeError
    cls = refdict.cls_obj(cls_name)
    errors = common.lib_errors()
    try:
        avp = cls(w)
    except (Exception,) + errors as e:
        return [V("Unsigned32 AVP built from a 32-bit word", f"bits/ctor-raises/{type(e).__name__}", f"{cls_name}({w}): {e!r}")]
    in_range = 0 <= i <= 31
    zone = "in-range" if in_range else "out-of-range"
    before = avp.data
    if before != struct.pack(">I", w):
        return [V("data is the big-endian word", "bits/data", f"{before!r} for {w:#x}")]
    try:
        if op == "test":
            r = avp.is_bit_set(i)
        elif op == "set":
            r = avp.set_bit(i)
        else:
            r = avp.unset_bit(i)
        raised = None
    except DiameterTypeError as e:
        raised = e
    except (Exception,) + errors as e:
        return [V("bit accessors raise only the library's type error", f"bits/{op}/{zone}/foreign-{type(e).__name__}", f"w={w:#x} i={i}: {e!r}")]
    after = int.from_bytes(avp.data, "big") if isinstance(avp.data, bytes) and len(avp.data) == 4 else None
    if not in_range:
        if raised is None:
            return [V("out-of-range indices are rejected", f"bits/{op}/out-of-range/accepted", f"w={w:#x} i={i} -> {r!r}")]
        if after != w:
            return [V("a rejected operation changes nothing", f"bits/{op}/out-of-range/mutated", f"w={w:#x} i={i} -> {after}")]
        return []
    bit = (w >> i) & 1
    byte = i // 8
    if op == "test":
        if raised is not None:
            return [V("testing a bit in range never raises", f"bits/test/raises/byte{byte}", f"w={w:#x} i={i}")]
        if bool(r) != bool(bit):
            return [V("is_bit_set(i) reads bit i of the big-endian word", f"bits/test/wrong/byte{byte}", f"w={w:#x} i={i}: {r} vs {bit}")]
        if after != w:
            return [V("testing changes nothing", "bits/test/mutated", f"w={w:#x} i={i} -> {after:#x}")]
        return []
    want_redundant = (op == "set" and bit == 1) or (op == "unset" and bit == 0)
    if want_redundant:
        if raised is None:
            return [V("redundant set/clear is rejected", f"bits/{op}/redundant-accepted/byte{byte}", f"w={w:#x} i={i}")]
        if after != w:
            return [V("a rejected operation changes nothing", f"bits/{op}/redundant-mutated", f"w={w:#x} i={i} -> {after}")]
        return []
    if raised is not None:
        return [V(f"{op} of a {'clear' if op == 'set' else 'set'} bit succeeds", f"bits/{op}/raises/byte{byte}", f"w={w:#x} i={i}: {raised!r}")]
    want = (w | (1 << i)) if op == "set" else (w & ~(1 << i))
    if after != want:
        return [V(f"{op}_bit(i) changes exactly bit i", f"bits/{op}/wrong/byte{byte}", f"w={w:#x} i={i}: got {after if after is None else hex(after)} want {want:#x}")]
    row = refdict.by_cls(cls_name)
    if avp.dump() != rc.enc_avp(row["code"], row["flags"], row["vendor"], struct.pack(">I", want)):
        return [V("dump() reflects the changed word", f"bits/{op}/dump", f"w={w:#x} i={i}")]
    return []


def check_addr(cls_name, lit):
    common.bootstrap()
    cls = refdict.cls_obj(cls_name)
    errors = common.lib_errors()
    try:
        packed4 = socket.inet_pton(socket.AF_INET, lit)
        fam, packed = 1, packed4
    except OSError:
        fam, packed = 2, socket.inet_pton(socket.AF_INET6, lit)
    try:
        avp = cls(lit)
        data = avp.data
        v4, v6, back = avp.is_ipv4(), avp.is_ipv6(), avp.get_ip_address()
    except (Exception,) + errors as e:
        return [V("Address AVP accepts an IP literal", f"addr/raises/v{4 if fam == 1 else 6}/{type(e).__name__}", f"{cls_name}({lit!r}): {e!r}")]
    vs = []
    if data != struct.pack(">H", fam) + packed:
        vs.append(V("data is family code + packed address", f"addr/data/v{4 if fam == 1 else 6}", f"{lit!r}: {data.hex()}"))
    if (bool(v4), bool(v6)) != (fam == 1, fam == 2):
        vs.append(V("is_ipv4/is_ipv6 agree with the family", f"addr/family/v{4 if fam == 1 else 6}", f"{lit!r}: {v4},{v6}"))
    try:
        again = socket.inet_pton(socket.AF_INET if fam == 1 else socket.AF_INET6, back)
    except (OSError, TypeError) as e:
        again = None
    if again != packed:
        vs.append(V("get_ip_address() reports the same address", f"addr/back/v{4 if fam == 1 else 6}", f"{lit!r} -> {back!r}"))
    return vs


def check_time(cls_name, dtv, tz=None):
    with common.process_tz(tz):
        return _check_time(cls_name, dtv)


def _check_time(cls_name, dtv):
    common.bootstrap()
    cls = refdict.cls_obj(cls_name)
    errors = common.lib_errors()
    dt = datetime.datetime(*dtv)
    # independent arithmetic: days since 1900-01-01 via ordinals
    days = dt.toordinal() - datetime.date(1900, 1, 1).toordinal()
    secs = days * 86400 + dt.hour * 3600 + dt.minute * 60 + dt.second
    try:
        avp = cls(dt)
        data = avp.data
    except (Exception,) + errors as e:
        return [V("Time AVP accepts every representable instant", f"time/raises/{type(e).__name__}", f"{dt}: {e!r}")]
    if data != struct.pack(">I", secs):
        kind = "subsecond" if dt.microsecond else "whole"
        return [V("Time encodes whole seconds since 1900-01-01", f"time/data/{kind}", f"{dt}: {data.hex()} want {secs:#010x}")]
    return []


def run_case(case):
    k = case["kind"]
    if k == "mid-call":
        from .. import midcall
        return midcall.run_case(case)
    if k == "bits":
        return check_bits(case["cls"], case["w"], case["i"], case["op"])
    if k == "addr":
        return check_addr(case["cls"], case["lit"])
    if k == "time":
        return check_time(case["cls"], case["dt"], case.get("tz"))
    if k == "bits-history":
        return check_bits_history(case["cls"], case["w"], case["ops"])
    raise ValueError(case)


def nontrivial(case):
    k = case["kind"]
    if k == "bits-history":
        return any(o["op"] == "assign" for o in case["ops"])
    if k == "bits":
        return case["i"] in (7, 8, 15, 16, 23, 24) or bin(case["w"]).count("1") >= 2 or not (0 <= case["i"] <= 31)
    if k == "addr":
        return ":" in case["lit"] and ("::" in case["lit"] or "." in case["lit"])
    dt = datetime.datetime(*case["dt"])
    return dt.microsecond != 0 or dt >= datetime.datetime(2036, 2, 6, 6, 28, 16)


def main(ctx):
    common.bootstrap()
    refdict.all_classes()
    col = Collector(PID, RULE)
    # exhaustive part
    n = nt = 0
    for cls in BIT_CLASSES[:2]:
        for w in WORDS:
            for i in range(32):
                for op in ("test", "set", "unset"):
                    case = {"kind": "bits", "cls": cls, "w": w, "i": i, "op": op}
                    n += 1
                    nt += nontrivial(case)
                    for v in run_case(case):
                        col.violation(case, v)
    col.count_enum(n, nt, {"bits-exhaustive": n})
    col.exhaustive = True
    col.extra["exhaustive_scope"] = f"{len(WORDS)} boundary words x 32 indices x 3 operations x 2 classes"
    words = st.one_of(st.sampled_from(WORDS), st.integers(0, 2**32 - 1))
    idx = st.one_of(st.integers(0, 31), st.sampled_from([-1, -8, 32, 33, 64, 255, 10**6, -2**31]))
    bits = st.builds(lambda c, w, i, op: {"kind": "bits", "cls": c, "w": w, "i": i, "op": op},
                     st.sampled_from(BIT_CLASSES), words, idx, st.sampled_from(["test", "set", "unset"]))
    lits = st.one_of(gens.ipv4_lit, gens.ipv6_lit,
                     st.builds(lambda a, b: f"::ffff:{a}" if b else f"::{a}", gens.ipv4_lit, st.booleans()))
    addr = st.builds(lambda c, l: {"kind": "addr", "cls": c, "lit": l}, st.sampled_from(ADDR_CLASSES), lits)
    tm = st.builds(lambda c, d, tz: {"kind": "time", "cls": c, "dt": gens.dtval(d)["v"], "tz": tz}, st.sampled_from(TIME_CLASSES), gens.datetimes,
                   st.sampled_from([None] + common.TZS))
    hop = st.one_of(st.builds(lambda o, i: {"op": o, "i": i}, st.sampled_from(["test", "test", "set", "unset"]), st.integers(0, 31)),
                    st.builds(lambda w: {"op": "assign", "w": w}, words))
    hist = st.builds(lambda c, w, ops: {"kind": "bits-history", "cls": c, "w": w, "ops": ops}, st.sampled_from(BIT_CLASSES), words,
                     st.lists(hop, min_size=2, max_size=8))
    cases = st.one_of(bits, addr, tm, hist)

    def body(case):
        f = [case["kind"]]
        if case["kind"] == "bits":
            f.append("bit-out-of-range" if not 0 <= case["i"] <= 31 else "bit-in-range")
        if case["kind"] == "addr":
            f.append("ipv6" if ":" in case["lit"] else "ipv4")
        if case["kind"] == "time" and case.get("tz"):
            f.append("time-under-non-default-tz")
        col.record(case, run_case(case), nontrivial=nontrivial(case), classes=f)

    common.hyp_collect(cases, body, 4000 if ctx.quick else 300000, ctx.seed)
    for path, rec in common.load_replays(PID):
        col.record(rec["case"], run_case(rec["case"]), nontrivial=True, classes=["replay"])
    from .. import midcall
    nitems = 18          # len(midcall.items("c20"))
    midcall.sweep(col, "c20", "a typed AVP carries the encoding of its own value - whatever another thread is encoding at the same time",
                  ks=[3, 4, 7] if ctx.quick else list(range(1, nitems)), nmax=150)
    ctx.required_classes = ["mid-call-parked", "bits", "addr", "time", "bit-out-of-range", "ipv6", "ipv4", "time-under-non-default-tz", "bits-history"]
    ctx.assumptions = ["bit indices are ints; address literals without scope ids; naive datetimes"]
    ctx.shrinker = lambda sig, case: common.hyp_shrink(cases, lambda c: any(v.sig == sig for v in run_case(c)), ctx.seed, n=3000, budget_s=30) or case
    return col

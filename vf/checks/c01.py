"""C01 - serialised messages are exactly the RFC 6733 encoding of their content.

Generator : logical content (header fields over full width; dictionary AVPs
            with in-domain values; generic AVPs; Grouped nesting to depth 4)
            independent of bromelia objects; deterministic sweep "every class
            x k values"; typed command classes through the C09 generator.
Oracle    : independent struct-based encoder fed the same logical content;
            dump() == bytes(msg) == reference, Message Length == len, per-AVP
            dump == reference.
"""
from hypothesis import strategies as st

from .. import common, gens, refdict
from .. import refcodec as rc
from ..common import V, Collector

PID = "C01"
RULE = ("messages generated as logical content (header x AVP forest) and encoded by an independent reference encoder; "
        "non-trivial = contains an AVP with data length % 4 != 0, or a vendor AVP, or nesting depth >= 2, or two AVPs "
        "of the same name; distinct by SHA-1 of the case record")
NT = {"padded", "vendor", "nested", "same-name-twice"}


def _avp_sig(node, depth_label):
    if node["k"] == "gen":
        t, vendor = "generic", node["vendor"]
        dlen = len(gens.ref_data("generic", None, node["v"]))
        vt = node["v"]["t"]
    else:
        row = refdict.by_cls(node["cls"])
        t, vendor = row["type"], row["vendor"]
        dlen = len(gens.ref_data(row["type"], row["cls"], node["v"]))
        vt = node["v"]["t"]
    return f"{t}/{'vendor' if vendor is not None else 'novendor'}/res{dlen % 4}/in={vt}/{depth_label}"


def _first_bad(nodes, objs):
    """Locate the first AVP (depth-first) whose own dump differs from the reference."""
    for n, o in zip(nodes, objs):
        try:
            d = o.dump()
        except (Exception,) + common.lib_errors() as e:
            return n, f"dump raises {type(e).__name__}"
        if d != gens.ref_node(n):
            if n["v"]["t"] == "l":
                try:
                    inner = _first_bad(n["v"]["items"], list(o.avps))
                except Exception:
                    inner = None
                if inner:
                    return inner[0], inner[1] + " (nested)"
            return n, f"got {d.hex()[:120]} want {gens.ref_node(n).hex()[:120]}"
    return None


def check_message(m):
    errors = common.lib_errors()
    try:
        ref = gens.ref_message(m)
    except Exception as e:
        raise AssertionError(f"reference encoder failed on generated case: {e!r}")
    with common.process_tz(m.get("tz")):
        try:
            msg = gens.build_message(m)
        except (Exception,) + errors as e:
            return "discard", f"construction refused: {type(e).__name__}", []
        vs = []
        try:
            got = msg.dump()
            got2 = bytes(msg)
            glen = msg.header.get_length()
        except (Exception,) + errors as e:
            return "ok", None, [V("dump() of a constructed message raises", f"dump-raises/{type(e).__name__}/{m['how']}", repr(e))]
    if got2 != got:
        vs.append(V("bytes(msg) == msg.dump()", "bytes-vs-dump", ""))
    if got != ref:
        bad = _first_bad(m["avps"], list(msg.avps))
        if bad:
            n, why = bad
            vs.append(V("each AVP is encoded per RFC 6733", "avp-bytes/" + _avp_sig(n, "top" if n in m["avps"] else "nested"), why))
        elif got[:20] != ref[:20]:
            fields = ["version", "len", "len", "len", "flags", "cmd", "cmd", "cmd"] + ["app"] * 4 + ["hbh"] * 4 + ["e2e"] * 4
            f = next(fields[i] for i in range(20) if got[i:i + 1] != ref[i:i + 1])
            feats = sorted(gens.node_features(m["avps"]) & {"padded", "same-name-twice"})
            sig = f"header/{f}" + (f"/how={m['how']}/{'+'.join(feats)}" if f == "len" else "")
            vs.append(V("20-byte header carries the fields as set", sig,
                        f"got {got[:20].hex()} want {ref[:20].hex()}"))
        else:
            vs.append(V("AVPs follow the header in order", f"body-order/how={m['how']}", f"got {got.hex()[:200]} want {ref.hex()[:200]}"))
    if glen != len(got) and not any(v.sig.startswith("header/len") for v in vs):
        vs.append(V("Message Length equals the serialised size", f"msg-length/how={m['how']}", f"field {glen}, size {len(got)}"))
    if m.get("derive") and not vs:
        from bromelia.base import DiameterAnswer, DiameterRequest
        try:
            with common.process_tz(m.get("tz")):
                objs = [gens.build_node(n) for n in m["avps"]]
                second = (DiameterAnswer if m["derive"] == "answer" else DiameterRequest)(header=msg.header, avps=objs)
                d2 = second.dump()
                l2 = second.header.get_length()
        except (Exception,) + errors as e:
            return "ok", None, [V("a message built from another message's header serialises", f"derived/{m['derive']}/raises/{type(e).__name__}", repr(e))]
        if d2[20:] != ref[20:]:
            vs.append(V("AVPs follow the header in order", f"derived/{m['derive']}/body", f"{d2[20:].hex()[:120]} != {ref[20:].hex()[:120]}"))
        if l2 != len(d2) or int.from_bytes(d2[1:4], "big") != len(d2):
            vs.append(V("Message Length equals the serialised size", f"derived/{m['derive']}/msg-length",
                        f"field {int.from_bytes(d2[1:4], 'big')} / {l2}, size {len(d2)} (source message was {len(got)} bytes)"))
        if d2[0:1] != ref[0:1] or d2[5:20] != ref[5:20]:
            vs.append(V("20-byte header carries the fields as set", f"derived/{m['derive']}/header-fields", f"{d2[:20].hex()} from {ref[:20].hex()}"))
    if len(ref) % 4:
        raise AssertionError("reference produced unaligned message")
    return "ok", None, vs


def check_avp(node, tz=None):
    errors = common.lib_errors()
    ref = gens.ref_node(node)
    try:
        with common.process_tz(tz):
            o = gens.build_node(node)
    except (Exception,) + errors as e:
        return "discard", f"construction refused: {node.get('cls', 'generic')}: {type(e).__name__}", []
    try:
        got = o.dump()
        ln = o.get_length()
    except (Exception,) + errors as e:
        return "ok", None, [V("dump() of a constructed AVP raises", f"avp-dump-raises/{_avp_sig(node, 'top')}", repr(e))]
    vs = []
    if got != ref:
        bad = _first_bad([node], [o])
        n, why = bad if bad else (node, "")
        vs.append(V("each AVP is encoded per RFC 6733", "avp-bytes/" + _avp_sig(n, "top" if n is node else "nested"), why))
    want_len = int.from_bytes(ref[5:8], "big")
    if ln != want_len:
        vs.append(V("AVP length covers header plus data, not padding", "avp-length/" + _avp_sig(node, "top"), f"{ln} vs {want_len}"))
    return "ok", None, vs


HDR_BITS = {"R": ("set_request_bit", 0x80), "P": ("set_proxiable_bit", 0x40), "E": ("set_error_bit", 0x20), "T": ("set_retransmitted_bit", 0x10)}
AVP_BITS = {"M": ("set_mandatory_bit", 0x40), "P": ("set_protected_bit", 0x20)}


def check_flag_api(case):
    """the flag-bit setters are a public way of setting the flags field: after every call that the library accepts, the flags octet
    (header or AVP) is the previous one with exactly that bit set / cleared; a call it refuses changes nothing; the serialised
    message carries the final octets"""
    from bromelia.base import DiameterMessage, DiameterHeader, DiameterAVP
    errors = common.lib_errors()
    hf, af = case["hdr_flags"], case["avp_flags"]
    vendor = case["vendor"]
    try:
        hdr = DiameterHeader(flags=hf, command_code=316, application_id=16777251, hop_by_hop=1, end_to_end=2)
        avp = DiameterAVP(code=99001, vendor_id=vendor, flags=af, data=b"abc")
        msg = DiameterMessage(hdr, [avp])
    except (Exception,) + errors as e:
        return "discard", f"construction refused: {type(e).__name__}", []
    vs = []
    for i, (where, bit, state) in enumerate(case["ops"]):
        obj, table = (msg.header, HDR_BITS) if where == "hdr" else (msg.avps[0], AVP_BITS)
        meth, mask = table[bit]
        before = hf if where == "hdr" else af
        try:
            getattr(obj, meth)(state)
            accepted = True
        except errors:
            accepted = False
        except Exception as e:
            return "ok", None, [V("flag-bit setters fail with a library error or not at all", f"flag-api/{where}/{bit}/foreign-error/{type(e).__name__}", repr(e))]
        want = ((before | mask) if state else (before & ~mask)) if accepted else before
        got = obj.get_flags()
        if got != want:
            vs.append(V("the flags field is the one set through the flag-bit API", f"flag-api/{where}/{bit}/{'set' if state else 'clear'}/{'accepted' if accepted else 'refused'}-but-wrong",
                        f"op {i}: {before:#04x} -> {got:#04x}, expected {want:#04x}"))
            break
        if where == "hdr":
            hf = want
        else:
            af = want
    if not vs:
        ref = rc.enc_msg(1, hf, 316, 16777251, 1, 2, [rc.enc_avp(99001, af, vendor, b"abc")])
        try:
            got = msg.dump()
        except (Exception,) + errors as e:
            return "ok", None, [V("dump() of a constructed message raises", f"flag-api/dump-raises/{type(e).__name__}", repr(e))]
        if got != ref:
            vs.append(V("the serialised message carries the flags as set", "flag-api/" + ("header" if got[:20] != ref[:20] else "avp") + "-bytes",
                        f"{got.hex()} != {ref.hex()}"))
    return "ok", None, vs


flag_cases = st.builds(
    lambda hf, v, af, ops: {"kind": "flag-api", "hdr_flags": hf, "vendor": v, "avp_flags": (af & 0x7F) | (0x80 if v is not None else 0), "ops": ops},
    st.sampled_from([0x00, 0x80, 0x40, 0xC0, 0x20, 0x60, 0x10, 0x90, 0xD0, 0x70, 0x0F, 0x8F]), st.sampled_from([None, None, 10415, 0xFFFFFFFF]),
    st.integers(0, 255),
    st.lists(st.one_of(st.tuples(st.just("hdr"), st.sampled_from("RPET"), st.booleans()), st.tuples(st.just("avp"), st.sampled_from("MP"), st.booleans())),
             min_size=1, max_size=6).map(lambda l: [list(t) for t in l]))


def run_case(case):
    if case.get("kind") == "mid-call":
        from .. import midcall
        return midcall.run_case(case)
    if case.get("kind") == "flag-api":
        return check_flag_api(case)[2]
    if case.get("kind") == "avp":
        return check_avp(case["node"], case.get("tz"))[2]
    if case.get("kind") == "typed":
        from . import c09
        return c09.check_encoding(case)
    return check_message(case)[2]


def _collect(shard, seed, n_msgs, sweep_vals):
    common.bootstrap()
    refdict.all_classes()
    col = Collector(PID, RULE)

    def body(m):
        status, why, vs = check_message(m)
        feats = gens.node_features(m["avps"])
        if m.get("derive"):
            feats = feats | {"built-from-another-message's-header"}
        col.record(m, vs, nontrivial=bool(feats & NT) and status == "ok", classes=sorted(feats) + ["how=" + m["how"]],
                   discard=why)

    common.hyp_collect(gens.message(depth=3), body, n_msgs, seed)

    def body_flags(case):
        status, why, vs = check_flag_api(case)
        col.record(case, vs, nontrivial=len(case["ops"]) >= 2 and status == "ok", classes=["flag-bit-api"], discard=why)

    common.hyp_collect(flag_cases, body_flags, max(40, n_msgs // 2), seed + 4242)

    # deterministic sweep: every dictionary class x sweep_vals generated values (sharded by class index)
    rows = refdict.rows()

    def body2(case):
        status, why, vs = check_avp(case["node"], case.get("tz"))
        feats = gens.node_features([case["node"]])
        if case.get("tz") and row_type.get(case["node"]["cls"]) == "Time":
            feats = feats | {"time-under-non-default-tz"}
        col.record(case, vs, nontrivial=bool(feats & NT) and status == "ok",
                   classes=["sweep"] + sorted(f for f in feats if f.startswith("res") or f in ("vendor+padded", "nested+padded", "depth>=3",
                                                                                              "time-under-non-default-tz")),
                   discard=why)
        col.classes["cls:" + case["node"]["cls"]] += 1

    row_type = {r["cls"]: r["type"] for r in rows}
    for i, row in enumerate(rows):
        if i % max(1, NSHARDS[0]) != shard:
            continue
        strat = st.builds(lambda n, tz: {"kind": "avp", "node": n, "tz": tz}, gens.dict_node(row["cls"], 3),
                          st.sampled_from(([None] + common.TZS) if row["type"] in ("Time", "Grouped") else [None]))
        common.hyp_collect(strat, body2, sweep_vals, seed + i)
    return col


NSHARDS = [1]


def main(ctx):
    from . import c09
    if ctx.quick:
        NSHARDS[0] = 8
        col = common.run_shards(_collect, 8, ctx.seed, n_msgs=120, sweep_vals=6)
    else:
        NSHARDS[0] = 16
        col = common.run_shards(_collect, 16, ctx.seed, n_msgs=4000, sweep_vals=60)
    # every class must have been swept
    missing = [r["cls"] for r in refdict.rows() if col.classes.get("cls:" + r["cls"], 0) == 0]
    if missing:
        raise AssertionError(f"sweep missed classes: {missing[:5]}")
    ncls = len([k for k in col.classes if k.startswith("cls:")])
    for k in [k for k in col.classes if k.startswith("cls:")]:
        del col.classes[k]
    col.extra["classes_swept"] = ncls
    # typed command classes (C09 generator), encoding oracle only
    typed = c09.collect_encoding(ctx, PID, RULE)
    col.merge(typed)
    # two threads serialising their own messages at the same time (fresh interpreter per scenario): every dump of a thread's message is
    # the same byte string, whichever line the other thread is parked at
    from .. import midcall
    midcall.sweep(col, "c01", "building and serialising a message gives the same bytes whatever another thread is building at the same time",
                  ks=[1] if ctx.quick else [1, 2, 3, 4], nmax=12000, chunk=8, step=131 if ctx.quick else 37)
    dumps = [c["_dumps"] for c in common.first_use_sweep(col, "c01", "dump() is the message's own encoding, whatever other threads serialise meanwhile")]
    for k in (0, 1):
        seen = {d[k] for d in dumps}
        if len(seen) != 1:
            col.record({"kind": "first-use", "workload": "c01", "compare": "across-variants"},
                       [V("dump() is the message's own encoding, whatever other threads serialise meanwhile", "first-use/c01/differs-between-schedules",
                          f"thread {k}: {len(seen)} different encodings of one message: {[str(x)[:80] for x in seen]}")], nontrivial=True, classes=["first-use-concurrent"])
    for path, rec in common.load_replays(PID):
        col.record(rec["case"], run_case(rec["case"]), nontrivial=True, classes=["replay"])
    ctx.required_classes = ["first-use-parked-mid-call", "padded", "vendor", "nested", "depth>=3", "same-name-twice", "generic", "flag-bit-api", "mid-call-parked", "vendor+padded",
                            "nested+padded", "res0", "res1", "res2", "res3", "sweep", "typed", "time-under-non-default-tz"]
    ctx.assumptions = ["in-domain values per class as tabled in vf/gens.py (DESIGN C01); constructions the library refuses "
                       "are counted as discards, not judged", "reference dictionary ref/avp_dictionary.json supplies code/vendor/default flags"]

    def shrinker(sig, case):
        if case.get("kind") == "avp":
            strat = gens.dict_node(case["node"]["cls"], 3).map(lambda n: {"kind": "avp", "node": n, "tz": case.get("tz")})
        elif case.get("kind") == "typed":
            return case
        else:
            strat = gens.message(depth=3)
        return common.hyp_shrink(strat, lambda c: any(v.sig == sig for v in run_case(c)), ctx.seed, n=1500, budget_s=45) or case
    ctx.shrinker = shrinker
    return col

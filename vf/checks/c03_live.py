"""C03(b) - malformed bytes arriving on a live connection never wedge the node.

Generator : the C03(a) malformed corpus (structural mutations, garbage, deep nesting)
            plus misaddressed requests and unknown enumerators in otherwise valid
            application messages, injected (optionally fragmented) in each
            connection state that can receive bytes: responder Closed awaiting CER,
            Wait-I-CEA, Open, Closing; fair schedule in the controlled world.
Oracle    : afterwards the node is responsive: no library thread died while the
            connection is still up; no association/transport lock is left held;
            send_message() returns; for inputs that keep the message framing intact a
            subsequent valid message is still delivered; close() (answered by DPA and
            a disconnect) or a peer disconnect brings the node to Closed with every
            thread finished and the transport released - no deadlock.
"""
from hypothesis import strategies as st

from .. import common
from .. import refcodec as rc
from ..common import V, Collector
from ..world import World, LOCAL, app_request, peer_dpa
from . import c03, c02


@st.composite
def cases(draw):
    role = draw(st.sampled_from(["client", "server"]))
    state = draw(st.sampled_from(["open", "open", "open", "closing", "wait-cea" if role == "client" else "server-closed"]))
    kind = draw(st.sampled_from(["mutation", "mutation", "misaddressed", "unknown-enumerator", "wrong-width", "short-host-ip",
                                 "good+length0", "good+short-length", "good+garbage-header", "binary-user-name", "stale-base-answer",
                                 "foreign-vendor-routing-avp"]))
    mut = draw(c03.cases) if kind == "mutation" else None
    return {"kind": "live", "role": role, "state": state, "input": kind, "mut": mut, "cuts": draw(st.lists(st.integers(1, 600), max_size=3)),
            "hbh": draw(st.integers(1, 2**32 - 1))}


def build_input(case):
    """-> (bytes, frame_preserving)"""
    k = case["input"]
    if k == "mutation":
        data = c03.apply_mutation(case["mut"])
        try:
            # framing is intact when the reference splitter finds whole messages by their length fields
            i = 0
            while i < len(data):
                if len(data) - i < 20:
                    return data, False
                ln = int.from_bytes(data[i + 1:i + 4], "big")
                if ln < 20 or ln % 4 or i + ln > len(data):
                    return data, False
                i += ln
            return data, True
        except Exception:
            return data, False
    if k == "misaddressed":
        return app_request(case["hbh"], 7, dest_realm="elsewhere.example", dest_host="other.host.example"), True
    if k == "unknown-enumerator":
        # Auth-Session-State (277, Enumerated {0,1}) carrying 77
        avps = [rc.enc_avp(263, 0x40, None, b"peer;9;9"), rc.enc_avp(277, 0x40, None, (77).to_bytes(4, "big")),
                rc.enc_avp(264, 0x40, None, b"peer.remote.example"), rc.enc_avp(296, 0x40, None, b"remote.example")]
        return rc.enc_msg(1, 0xC0, 316, 16777251, case["hbh"], 8, avps), True
    if k == "wrong-width":
        avps = [rc.enc_avp(263, 0x40, None, b"peer;9;9"), rc.enc_avp(268, 0x40, None, b"\x00\x00\x07\xd1\x00")]     # 5-byte Result-Code
        return rc.enc_msg(1, 0x40, 316, 16777251, case["hbh"], 8, avps), True
    if k in ("good+length0", "good+short-length", "good+garbage-header"):
        # one or two well-formed messages immediately followed, in the same read, by a header that cannot be framed
        good = app_request(case["hbh"], 5, dest_realm=LOCAL["realm"]) * (1 + case["hbh"] % 2)
        ln = {"good+length0": 0, "good+short-length": 1 + case["hbh"] % 19, "good+garbage-header": 0xFFFFFF}[k]
        bad = bytes([1]) + ln.to_bytes(3, "big") + bytes([0x80, 0, 1, 0x3c]) + bytes(12)
        return good + bad, False
    if k == "stale-base-answer":
        return b"", True                   # built at run time from what the node has sent (see stale_base_answer)
    if k == "foreign-vendor-routing-avp":
        # a well-formed request that also carries an AVP with the *code* of Destination-Host / Destination-Realm / Origin-Host
        # under a foreign Vendor-Id (V flag set): a different AVP as far as the dictionary is concerned
        code = [293, 283, 264, 263][case["hbh"] % 4]
        extra = rc.enc_avp(code, 0xC0 if case["hbh"] % 8 < 4 else 0x80, 99999, b"other.host.example")
        base = rc.dec_stream(app_request(case["hbh"], 7, dest_realm=LOCAL["realm"]))[0]
        with_dest = (case["hbh"] // 8) % 2 == 0
        avps = [a["raw"] for a in base["avps"] if with_dest or a["code"] not in (283, 293)]
        pos = (case["hbh"] // 16) % (len(avps) + 1)
        avps.insert(pos, extra)
        return rc.enc_msg(1, base["flags"], base["cmd"], base["app"], case["hbh"], 7, avps), True
    if k == "binary-user-name":
        return app_request(case["hbh"], 7, dest_realm=LOCAL["realm"], user=b"\xff\xfe\x00\x80name"), True
    if k == "short-host-ip":
        # CER-like message whose Host-IP-Address has family code only
        avps = [rc.enc_avp(264, 0x40, None, b"peer.remote.example"), rc.enc_avp(296, 0x40, None, b"remote.example"),
                rc.enc_avp(257, 0x40, None, b"\x00\x01"), rc.enc_avp(266, 0x40, None, bytes(4)), rc.enc_avp(269, 0, None, b"x")]
        return rc.enc_msg(1, 0x80, 257, 0, case["hbh"], 8, avps), True
    raise ValueError(k)


def stale_base_answer(w, case):
    """A well-formed base-protocol answer that echoes the End-to-End identifier of a request the node really sent, with a Hop-by-Hop
    identifier that is not (or no longer) pending: a duplicated CEA/DWA/DPA, or one whose Hop-by-Hop field alone was damaged."""
    from ..world import peer_cea, peer_dwa
    reqs = [m for m in w._safe_sent() if m["flags"] & 0x80 and m["cmd"] in (257, 280, 282)]
    if not reqs:
        return b""
    r = reqs[-1]
    build = {257: peer_cea, 280: peer_dwa, 282: peer_dpa}[r["cmd"]]
    variant = case["hbh"] % 3
    if variant == 0 and r["cmd"] != 282:
        # the genuine answer (if not given yet) followed by its duplicate
        return build(r["hbh"], r["e2e"]) * 2
    if variant == 1:
        return build(r["hbh"] ^ 0x00010000, r["e2e"])
    return build((r["hbh"] + 1) & 0xFFFFFFFF, r["e2e"]) + build(r["hbh"] ^ 0x80000000, r["e2e"])


def run_one(case):
    info = {}
    data, framed = build_input(case)
    vs = []
    tag = f"{case['state']}/{case['input']}"
    stale = case["input"] == "stale-base-answer"
    if data:
        # an input on which the decoder alone does not come back (step or CPU-time bound) would wedge the node - and this harness - in
        # the same way: the finding is reported from the decoder run and the live run is not attempted
        pre = [v for v in c03.judge("msg", bytes(data)) if v.sig.endswith(("/step-bound", "/cpu-bound"))]
        if pre:
            return pre, info
    # a responder sends no request of its own until its watchdog period has passed: use a short one for that input
    with World(role=case["role"], apps=["s6a"], max_steps=900000, watchdog=1 if stale and case["role"] == "server" else 30) as w:
        st_ = case["state"]
        if st_ == "wait-cea":
            w.net.connect_policy = "ack"
            w.start()
            w.run(lambda: any(m["cmd"] == 257 for m in w._safe_sent()), 5.0)
        elif st_ == "server-closed":
            w.start()
            w.run(lambda: bool(w.net.listeners), 5.0)
            w.net.peer_connect(w.net.listeners[-1])
            w.run(lambda: w.sock is not None and w.d._association.transport is not None and
                  w.sock in w.d._association.transport.selector.get_map(), 5.0)
        else:
            if not w.open_connection():
                return [V("harness: connection setup failed", "harness/setup", w.state())], info
            if st_ == "closing":
                w.call("closer0", lambda: w.d.close())
                w.run(lambda: any(m["cmd"] == 282 for m in w._safe_sent()), 5.0)
        got = []

        def consume():
            while True:
                m = w.d.get_message()
                if m is None:
                    return
                got.append(m.header.get_hop_by_hop())
        if st_ == "open":
            w.call("consumer", consume)
        sock = w.sock
        if stale:
            if case["role"] == "server" and st_ == "open":
                w.run(lambda: any(m["cmd"] == 280 and m["flags"] & 0x80 for m in w._safe_sent()), 3.0)
            data = stale_base_answer(w, case)
            info["stale_for"] = data[5:8].hex() if data else None
        # ---------------- inject
        cuts = sorted(set(c % max(1, len(data)) for c in case["cuts"])) if data else []
        w.feed(data, [c for c in cuts if 0 < c < len(data)])
        w.run(lambda: False, 1.5)
        assoc = w.d._association

        def lib_threads():
            return [t for t in w.sched.threads if t.name.endswith(("_psm_thread", "transport_layer_thread", "recv_message_monitor"))]
        state_after = w.state()
        if state_after != "Closed":
            dead = [(t.name, type(t.exc).__name__) for t in lib_threads() if t.exc is not None]
            if dead:
                vs.append(V("worker threads survive malformed input (or the connection is closed cleanly)", f"thread-died/{dead[0][0]}/{dead[0][1]}/{tag}",
                            f"{dead} while state {state_after}"))
        if assoc is not None and assoc.lock.locked():
            vs.append(V("no internal lock is left held", f"lock-held/association/{tag}", f"owner {assoc.lock._owner}"))
        # ---------------- local API calls still return
        if state_after in ("I-Open", "R-Open") and not vs:
            from . import c05
            probe = c05.build_msgs({"subs": [{"msgs": [{"kind": "req", "size": 5}]}]})[0][0]
            ct = w.call("sender", lambda: w.d.send_message(probe))
            w.run(lambda: ct.state == "finished", 5.0)
            if ct.state != "finished":
                vs.append(V("local API calls still return", f"send_message-blocks/{tag}", str(ct)))
            else:
                w.run(lambda: probe.dump() in bytes(sock.outbox), 5.0)
                if probe.dump() not in bytes(sock.outbox) and w.state() in ("I-Open", "R-Open"):
                    vs.append(V("a submitted message still reaches the socket", f"send-stuck/{tag}", ""))
            if framed and w.state() in ("I-Open", "R-Open"):
                if st_ != "open":
                    w.call("consumer", consume)         # the input itself completed the opening
                w.feed(app_request(0x600D600D, 1, dest_realm=LOCAL["realm"]))
                w.run(lambda: 0x600D600D in got, 5.0)
                if 0x600D600D not in got:
                    vs.append(V("a subsequent valid message is still delivered", f"later-message-lost/{tag}",
                                f"delivered so far {got}; state {w.state()}"))
        # ---------------- ending the connection always works
        if w.state() in ("I-Open", "R-Open"):
            cl = w.call("closer", lambda: w.d.close())
            w.run(lambda: cl.state == "finished", 5.0)
            if cl.state != "finished":
                vs.append(V("close() returns", f"close-blocks/{tag}", str(cl)))
            w.run(lambda: any(m["cmd"] == 282 and m["flags"] & 0x80 for m in w._safe_sent()), 5.0)
            dpr = next((m for m in w._safe_sent() if m["cmd"] == 282 and m["flags"] & 0x80), None)
            if dpr:
                w.feed(peer_dpa(dpr["hbh"], dpr["e2e"]))
        if w.state() != "Closed":
            w.run(lambda: w.state() == "Closed", 6.0)
        if (w.state() != "Closed" or w.sched.live_threads()) and sock is not None and not sock.closed:
            w.net.peer_fin(sock)                   # the peer goes away (a responder still awaiting the CER reports Closed all along)
        r = w.run(lambda: w.state() == "Closed" and not w.sched.live_threads(), 30.0)
        live = [(t.name, t.blocked_on or t.state) for t in w.sched.live_threads()]
        if w.state() != "Closed":
            vs.append(V("the connection can always be ended", f"not-closed/{tag}", f"state {w.state()}, live {live}"))
        elif live:
            vs.append(V("every thread terminates once the connection has ended (no deadlock)", f"threads-alive/{tag}", str(live)))
        if assoc is not None and assoc.lock.locked() and not any(v.sig.startswith("lock-held") for v in vs):
            vs.append(V("no internal lock is left held", f"lock-held/association-at-end/{tag}", ""))
        info.update(state_after=state_after, framed=framed, steps=w.sched.steps, n=len(data))
        world = w
    if world.unreaped:
        raise RuntimeError(f"harness could not reap threads: {world.unreaped}")
    return vs, info


def run_case(case):
    return run_one(case)[0]


def _collect(shard, seed, n):
    common.bootstrap()
    from .. import refdict
    refdict.all_classes()
    col = Collector(c03.PID, c03.RULE)

    def body(case):
        vs, info = run_one(case)
        f = ["live", "live-state=" + case["state"], "live-input=" + case["input"], "live-role=" + case["role"]]
        if info.get("framed"):
            f.append("live-frame-preserving")
        else:
            f.append("live-frame-breaking")
        col.record(case, vs, nontrivial=True, classes=f, sample={"state": case["state"], "input": case["input"], "bytes": info.get("n")})

    common.hyp_collect(cases(), body, n, seed)
    return col


def collect(ctx):
    return common.run_shards(_collect, 8 if ctx.quick else 16, ctx.seed, n=40 if ctx.quick else 1000)

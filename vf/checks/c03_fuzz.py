"""Thorough-tier atheris campaigns for C03(a): 16 libFuzzer processes (half with a seed corpus of valid
messages, half from an empty corpus), semantic oracle inside the target (vf/fuzz_c03.py)."""
import json
import os
import shutil
import subprocess
import sys

from .. import common
from ..common import V, Collector
from . import c03


def collect(ctx, runs=None, procs=16):
    col = Collector(c03.PID, c03.RULE)
    deps = common.DEPS
    try:
        env = dict(os.environ, PYTHONPATH=deps + os.pathsep + os.environ.get("PYTHONPATH", ""), PYTHONHASHSEED="0")
        subprocess.run([sys.executable, "-c", "import atheris"], env=env, check=True, capture_output=True)
    except Exception:
        col.extra["atheris"] = "unavailable; campaign skipped"
        return col
    runs = runs or 150000
    work = os.path.join(common.VERIF, ".work", f"c03-fuzz-{os.getpid()}")
    shutil.rmtree(work, ignore_errors=True)
    os.makedirs(work)
    ps = []
    for i in range(procs):
        out = os.path.join(work, f"p{i}")
        max_len = 256 if i % 4 < 2 else 4096
        cmd = [sys.executable, "-m", "vf.fuzz_c03", out, "1" if i % 2 == 0 else "0", f"-runs={runs}", f"-max_len={max_len}",
               f"-seed={ctx.seed * 100 + i + 1}", "-timeout=120"]
        ps.append((i, out, subprocess.Popen(cmd, cwd=common.VERIF, env=env, stdout=subprocess.DEVNULL, stderr=subprocess.DEVNULL)))
    execs = mal = 0
    for i, out, p in ps:
        p.wait()
        f = os.path.join(out, "findings.json")
        if not os.path.exists(f):
            col.inconclusive.append(f"fuzz process {i} left no findings file (exit {p.returncode})")
            continue
        data = json.load(open(f))
        execs += data["stats"]["execs"]
        mal += data["stats"]["distinct_malformed"]
        for sig, fd in data["findings"].items():
            raw = bytes.fromhex(fd["hex"])
            for v in c03.check_bytes(raw):          # confirm outside the fuzzer
                col.violation({"hex": raw.hex()}, v)
        # libFuzzer's own crash/timeout artefacts
        for name in os.listdir(out):
            if name.startswith(("crash-", "timeout-", "oom-")):
                raw = open(os.path.join(out, name), "rb").read()
                vs = c03.check_bytes(raw)
                if vs:
                    for v in vs:
                        col.violation({"hex": raw.hex()}, v)
                else:
                    col.inconclusive.append(f"libFuzzer artefact {name} does not reproduce outside the fuzzer")
    shutil.rmtree(work, ignore_errors=True)
    col.count_enum(execs, mal, {"atheris-exec": execs})
    col.extra["atheris"] = {"processes": procs, "runs_per_process": runs, "executions": execs, "distinct_malformed_inputs": mal,
                            "corpora": "8 seeded with valid CER/DWR/DPR/ULR/AIA, 8 empty", "max_len": "256 and 4096"}
    return col

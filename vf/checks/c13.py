"""C13 - each request reaches its registered handler and always gets exactly one answer.

Generator : route tables (1..3 applications x 1..3 command codes, codes shared
            across applications) registered through the real @app.route on a
            real Bromelia built from a generated YAML file, in-process Worker per
            application; requests for registered and unregistered pairs (generic
            and typed, built and decoded); handler outcome in {answer, None, str,
            request object, generic DiameterMessage, raises a standard exception}.
Oracle    : exactly the registered handler ran, once, no other; the worker of the
            request's application received exactly one message, the others none;
            for non-answer outcomes the message (reference-decoded) is a 5012
            answer with the request's identifiers and Session-Id, local origin,
            requester as destination.
"""
from hypothesis import strategies as st

from .. import common, gens, refdict, inproc
from .. import refcodec as rc
from ..common import V, Collector

PID = "C13"
RULE = ("(route table, request, handler outcome) triples on a real Bromelia with in-process workers; non-trivial = the table has a "
        "command code shared by >= 2 applications, or the handler outcome is not an answer, or the request is for an unregistered "
        "pair; distinct by SHA-1 of the case record")

CMDS = [316, 318, 272, 265, 258, 274, 275, 301, 303, 324, 8388620]
OUTCOMES = ["answer", "answer", "none", "str", "request", "generic-message", "int", "raise-ValueError", "raise-KeyError",
            "raise-RuntimeError", "raise-custom", "raise-noargs-RuntimeError", "raise-noargs-KeyError", "raise-noargs-StopIteration",
            "raise-noargs-AssertionError", "raise-twoargs-OSError"]


@st.composite
def cases(draw):
    apps = draw(st.lists(st.sampled_from(sorted(inproc.APPS)), min_size=1, max_size=3, unique=True))
    shared = draw(st.booleans())
    routes = []
    if shared and len(apps) >= 2:
        c = draw(st.sampled_from(CMDS))
        for i in range(len(apps)):
            routes.append([i, c])
    for i in range(len(apps)):
        for c in draw(st.lists(st.sampled_from(CMDS), min_size=0 if routes else 1, max_size=2, unique=True)):
            if [i, c] not in routes:
                routes.append([i, c])
    def one_request():
        registered = draw(st.sampled_from([True, True, True, False]))
        if registered:
            app_i, cmd = draw(st.sampled_from(routes))
        else:
            app_i = draw(st.integers(0, len(apps) - 1))
            free = [c for c in CMDS if [app_i, c] not in routes]
            cmd = draw(st.sampled_from(free))
        sid = draw(st.one_of(gens.sized_bytes(40).filter(lambda b: len(b) > 0), st.sampled_from([b"peer.example;1;2", b"x"])))
        return {"app": app_i, "cmd": cmd, "registered": registered, "sid": sid.hex(),
                "origin_host": draw(st.sampled_from(["peer.example", "mme01.epc.example.org", "h"])),
                "origin_realm": draw(st.sampled_from(["peer.realm", "r"])),
                "form": draw(st.sampled_from(["built", "decoded"])), "hbh": draw(gens.hdr_field(32)), "e2e": draw(gens.hdr_field(32)),
                "extra": draw(st.booleans()), "outcome": draw(st.sampled_from(OUTCOMES))}
    n_req = draw(st.sampled_from([1, 2, 3, 4]))
    reqs = [one_request() for _ in range(n_req)]
    if shared and len(apps) >= 2 and n_req >= 2 and draw(st.booleans()):
        # the same shared command code on two different applications, one after the other
        c = routes[0][1]
        reqs[0].update(app=0, cmd=c, registered=True)
        reqs[1].update(app=1, cmd=c, registered=True)
    return {"apps": apps, "routes": routes, "requests": reqs}


class _Custom(Exception):
    pass


def run_one(case):
    """One application object, one route table, a history of requests dispatched one after the other."""
    common.bootstrap()
    refdict.all_classes()
    errors = common.lib_errors()
    from bromelia.base import DiameterRequest, DiameterAnswer, DiameterMessage, DiameterHeader
    from bromelia.exceptions import BromeliaException
    C = refdict.cls_obj
    if "requests" not in case:                       # replay files written before histories were introduced
        case = dict(case, requests=[dict(case["request"], outcome=case["outcome"])])
    app, workers = inproc.make_app(case["apps"])
    app_ids = [rc.ref_u32(inproc.APPS[a][2]) for a in case["apps"]]
    calls = []
    cur = {}

    def make_handler(key):
        def handler(request):
            calls.append(key)
            rq, outcome = cur["rq"], cur["rq"]["outcome"]
            if outcome == "answer":
                return DiameterAnswer(command_code=rq["cmd"], application_id=app_ids[rq["app"]],
                                      avps=[C("SessionIdAVP")(b"placeholder"), C("ResultCodeAVP")(2001),
                                            C("OriginHostAVP")("local"), C("OriginRealmAVP")("realm")])
            if outcome == "none":
                return None
            if outcome == "str":
                return "not an answer"
            if outcome == "int":
                return 2001
            if outcome == "request":
                return request
            if outcome == "generic-message":
                return DiameterMessage(DiameterHeader(command_code=rq["cmd"]))
            if outcome == "raise-ValueError":
                raise ValueError("boom")
            if outcome == "raise-KeyError":
                raise KeyError("boom")
            if outcome == "raise-RuntimeError":
                raise RuntimeError("boom")
            if outcome == "raise-custom":
                raise _Custom("boom")
            if outcome == "raise-noargs-RuntimeError":
                raise RuntimeError
            if outcome == "raise-noargs-KeyError":
                raise KeyError()
            if outcome == "raise-noargs-StopIteration":
                return next(iter(()))
            if outcome == "raise-noargs-AssertionError":
                assert False
            if outcome == "raise-twoargs-OSError":
                raise OSError(5, "boom")
            raise AssertionError(outcome)
        handler.__name__ = f"handler_{key[0]}_{key[1]}"
        return handler

    for app_i, cmd in case["routes"]:
        app.route(application_id=app_ids[app_i], command_code=cmd.to_bytes(3, "big"))(make_handler((app_i, cmd)))

    vs = []
    for pos, rq in enumerate(case["requests"]):
        cur["rq"] = rq
        del calls[:]
        outcome = rq["outcome"]
        avps = [C("SessionIdAVP")(bytes.fromhex(rq["sid"])), C("OriginHostAVP")(rq["origin_host"]), C("OriginRealmAVP")(rq["origin_realm"]),
                C("DestinationRealmAVP")("local.example")]
        if rq["extra"]:
            avps.insert(1, C("AuthSessionStateAVP")(rc.ref_u32(1)))
            avps.append(C("UserNameAVP")("001010000000001"))
        request = DiameterRequest(command_code=rq["cmd"], application_id=app_ids[rq["app"]], avps=avps)
        request.header.hop_by_hop = rq["hbh"]
        request.header.end_to_end = rq["e2e"]
        wire_req = rc.dec_stream(request.dump())[0]
        if rq["form"] == "decoded":
            request = DiameterMessage.load(request.dump())[0]
        raised = None
        try:
            app.callback_route(request)
        except BromeliaException as e:
            raised = e
        except KeyError as e:
            raised = e
        except (Exception,) + errors as e:
            raised = e
        sent = {i: inproc.drain(workers[app_ids[i]]) for i in range(len(case["apps"]))}
        kind = "answer" if outcome == "answer" else ("raises" if outcome.startswith("raise") else "non-answer")
        hist = "first" if pos == 0 else "later"
        want_calls = [(rq["app"], rq["cmd"])] if rq["registered"] else []
        if calls != want_calls:
            extra = [c for c in calls if c not in want_calls]
            why = "wrong-handler" if extra else ("not-dispatched" if not calls else "dispatched-more-than-once")
            vs.append(V("dispatch to exactly the handler registered for (Application-ID, command code)", f"dispatch/{why}/{hist}-request",
                        f"request {pos} for (app {rq['app']}, cmd {rq['cmd']}): ran {calls}, expected {want_calls}; table {case['routes']}"))
        if not rq["registered"]:
            n = sum(len(v) for v in sent.values())
            if n:
                vs.append(V("no handler, no answer for an unregistered pair", "unregistered/answer-sent", f"{n} message(s)"))
            continue
        for i, msgs in sent.items():
            if i != rq["app"] and msgs:
                vs.append(V("only the request's application worker receives the answer", "answer/wrong-worker", f"worker {case['apps'][i]} got {len(msgs)}"))
        mine = sent[rq["app"]]
        if len(mine) != 1:
            vs.append(V("exactly one answer is sent per request", f"answer/count-{len(mine)}/{kind}", f"request {pos}, outcome {outcome}: {len(mine)} message(s); raised {raised!r}"))
            continue
        try:
            wire = mine[0].dump()
            try:
                dec = rc.dec_stream(wire)[0]
            except rc.RefDecodeError as e:
                vs.append(V("the answer handed to the worker is a well-formed message", f"answer/undecodable/{outcome}", f"{e}; {wire.hex()[:80]}"))
                continue
        except (rc.RefDecodeError, Exception) + errors as e:
            vs.append(V("the answer is a well-formed message", f"answer/undecodable/{kind}", repr(e)))
            continue
        if dec["flags"] & 0x80:
            vs.append(V("the answer has the R flag clear", f"answer/r-flag/{kind}", hex(dec["flags"])))
        for fld in ("hbh", "e2e", "app", "cmd"):
            if dec[fld] != wire_req[fld]:
                vs.append(V("the answer carries the request's identifiers", f"answer/{fld}/{kind}", f"{dec[fld]} != {wire_req[fld]}"))
        sid = rc.find_avp(dec["avps"], 263)
        if len(sid) != 1 or sid[0]["data"] != bytes.fromhex(rq["sid"]):
            vs.append(V("the answer carries the request's Session-Id", f"answer/session-id/{kind}", f"{[s['data'] for s in sid]}"))
        if dec["length"] != len(wire):
            vs.append(V("Message Length matches", f"answer/length/{kind}", ""))
        if kind != "answer":
            res = rc.find_avp(dec["avps"], 268)
            if len(res) != 1 or int.from_bytes(res[0]["data"], "big") != 5012:
                vs.append(V("a failing handler yields DIAMETER_UNABLE_TO_COMPLY", "error-answer/result-code", f"{[r['data'].hex() for r in res]}"))
            name = case["apps"][rq["app"]]
            want = {264: f"{name}.local.node.example".encode(), 296: b"local.example", 293: rq["origin_host"].encode(), 283: rq["origin_realm"].encode()}
            label = {264: "origin-host", 296: "origin-realm", 293: "destination-host", 283: "destination-realm"}
            for code, data in want.items():
                got = rc.find_avp(dec["avps"], code)
                if len(got) != 1 or got[0]["data"] != data:
                    vs.append(V("error answer carries the local origin and the requester as destination", f"error-answer/{label[code]}",
                                f"{[g['data'] for g in got]} != {data!r}"))
    seen, out = set(), []
    for v in vs:
        if v.sig not in seen:
            seen.add(v.sig)
            out.append(v)
    return out


def run_case(case):
    if case.get("kind") == "concurrent":
        return run_concurrent(case)
    if case.get("kind") == "poll":
        return run_poll(case)
    return run_one(case)


def _collect_poll(shard, seed, n):
    col = Collector(PID, RULE)

    def body(case):
        f = ["poll"]
        if any(sum(1 for n in rnd if n) >= 2 for rnd in case["rounds"]):
            f.append("requests-waiting-on-two-connections-at-one-poll")
        col.record(case, run_poll(case), nontrivial=len(f) > 1, classes=f)

    common.hyp_collect(poll_cases(), body, n, seed)
    return col


def features(case):
    f = {f"apps={len(case['apps'])}", f"requests={len(case['requests'])}"}
    by_cmd = {}
    for a, c in case["routes"]:
        by_cmd.setdefault(c, set()).add(a)
    if any(len(v) >= 2 for v in by_cmd.values()):
        f.add("shared-command-code")
    seen_shared = {}
    for rq in case["requests"]:
        f.add("outcome=" + ("raise-noargs" if "noargs" in rq["outcome"] else rq["outcome"].split("-")[0]))
        f.add("form=" + rq["form"])
        if len(by_cmd.get(rq["cmd"], ())) >= 2 and rq["registered"]:
            f.add("request-on-shared-code")
            seen_shared.setdefault(rq["cmd"], set()).add(rq["app"])
        if not rq["registered"]:
            f.add("unregistered")
    if any(len(v) >= 2 for v in seen_shared.values()):
        f.add("same-code-on-two-applications-in-one-history")
    return f


def _collect(shard, seed, n):
    col = Collector(PID, RULE)

    def body(case):
        f = features(case)
        nt = "shared-command-code" in f or any(r["outcome"] != "answer" for r in case["requests"]) or "unregistered" in f
        col.record(case, run_one(case), nontrivial=nt, classes=sorted(f))

    common.hyp_collect(cases(), body, n, seed)
    return col


def main(ctx):
    col = common.run_shards(_collect, 8 if ctx.quick else 16, ctx.seed, n=200 if ctx.quick else 4000)
    col.merge(common.run_shards(_collect_conc, 8 if ctx.quick else 16, ctx.seed, n=40 if ctx.quick else 800))
    col.merge(common.run_shards(_collect_poll, 4 if ctx.quick else 16, ctx.seed + 5, n=60 if ctx.quick else 1500))
    for path, rec in common.load_replays(PID):
        col.record(rec["case"], run_case(rec["case"]), nontrivial=True, classes=["replay"])
    ctx.required_classes = ["shared-command-code", "request-on-shared-code", "unregistered", "outcome=none", "outcome=raise", "outcome=str",
                            "outcome=request", "outcome=generic", "outcome=raise-noargs", "form=decoded", "apps=3", "requests=4", "concurrent-dispatch", "long-life-of-one-application-object",
                            "same-code-on-two-applications-in-one-history", "requests-waiting-on-two-connections-at-one-poll"]
    ctx.assumptions = ["in-process Worker objects with a fake multiprocessing manager; the hand-over is observed at the worker's send queue",
                       "handlers raise only standard Exception subclasses; requests carry Session-Id, Origin-Host and Origin-Realm",
                       "unregistered pairs: only 'no handler runs and nothing is sent' is asserted (documented behaviour)"]
    ctx.shrinker = lambda sig, case: common.hyp_shrink(cases(), lambda c: any(v.sig == sig for v in run_one(c)), ctx.seed, n=800, budget_s=40) or case
    return col


# ---------------------------------------------------------------------------------------------------------------------
# concurrent dispatch: the application layer runs one thread per incoming request (create_message_thread); a request
# that arrives while another handler is still running must not disturb the first one's answer
@st.composite
def concurrent_cases(draw):
    from .. import conc
    if draw(st.integers(0, 7)) == 0:
        # a long life of one application object: dozens of requests one after the other, most of them failing in their handler
        n = draw(st.sampled_from([45, 64, 90, 130]))
        outcomes = [draw(st.sampled_from(["none", "raise", "raise", "none", "answer"])) for _ in range(n)]
        return {"kind": "concurrent", "long": True, "n": n, "gates": [0] * n, "outcomes": outcomes, "sched": [], "send_delay": 0.0,
                "hbh": [0x1000 + i for i in range(n)]}
    n = draw(st.sampled_from([2, 2, 3]))
    gates = [draw(st.sampled_from([0, 0, n, n - 1])) for _ in range(n)]
    if all(g == 0 for g in gates):
        gates[0] = n
    outcomes = [draw(st.sampled_from(["answer", "answer", "answer", "none", "raise"])) for _ in range(n)]
    return {"kind": "concurrent", "n": n, "gates": gates, "outcomes": outcomes, "sched": draw(conc.schedules(150)),
            "send_delay": draw(st.sampled_from([0.0, 0.0, 0.03, 0.25, 0.6])),
            "hbh": draw(st.lists(st.sampled_from([1, 2, 3, 0x01020304, 0x01020305, 2**32 - 1]), min_size=n, max_size=n, unique=True))}


def run_concurrent(case):
    import struct
    common.bootstrap()
    refdict.all_classes()
    from ..dsched import Scheduler, Net, Patch
    from .c14 import ShimManager, Recorder
    from bromelia.base import DiameterRequest, DiameterAnswer
    from bromelia.exceptions import BromeliaException
    C = refdict.cls_obj
    n = case["n"]
    sched = Scheduler(choices=None, line_preempt=False, trace_prefix=common.REPO.rstrip("/") + "/bromelia/", max_steps=200000 if not case.get("long") else 6000000)
    net = Net(sched)
    vs = []
    with Patch(sched, net):
        sched.register_driver()
        try:
            app, workers = inproc.make_app(["s6a"], manager=ShimManager(sched))
            app_id = struct.pack(">I", 16777251)
            worker = workers[app_id]
            rec = Recorder(worker.app.config, sched, case.get("send_delay", 0.0))
            worker.app = rec
            entered = []
            reqs = []
            for i in range(n):
                r = DiameterRequest(command_code=316, application_id=16777251,
                                    avps=[C("SessionIdAVP")(f"peer;{i};{i}".encode()), C("OriginHostAVP")(f"peer{i}.example"),
                                          C("OriginRealmAVP")("peer.realm")])
                r.header.hop_by_hop = case["hbh"][i]
                r.header.end_to_end = 7000 + i
                reqs.append(r)

            @app.route(application_id=app_id, command_code=(316).to_bytes(3, "big"))
            def handler(request):
                i = next(j for j, r in enumerate(reqs) if r is request)
                entered.append(i)
                gate = case["gates"][i]
                if gate:
                    # stay inside the handler until `gate` requests have entered theirs (bounded: 2 virtual seconds)
                    sched.point("handler.gate", pred=lambda: len(entered) >= gate, timeout=2.0)
                if case["outcomes"][i] == "none":
                    return None
                if case["outcomes"][i] == "raise":
                    raise ValueError("boom")
                return DiameterAnswer(command_code=316, application_id=16777251,
                                      avps=[C("SessionIdAVP")(b"placeholder"), C("ResultCodeAVP")(2001 + i),
                                            C("OriginHostAVP")("local"), C("OriginRealmAVP")("realm")])

            sched.spawn(worker.send_handler, "send_handler")
            sched.choices = list(case["sched"])
            sched.choice_i = 0
            threads = []

            def dispatcher():
                for r in reqs:
                    threads.append(app.create_message_thread(r))
                    if case.get("long"):
                        # one after the other; a request that is never served (2 virtual seconds) does not hold up the next one
                        threads[-1].join(2.0)
            sched.spawn(dispatcher, "dispatcher")
            r_ = sched.run_until(lambda: len(threads) == n and all(not t.is_alive() for t in threads) and len(rec.sent) >= n or sched.overrun,
                                 15.0 if not case.get("long") else 15.0 + 3.0 * n)
            sched.run_until(lambda: False, 0.3)
            try:
                sent = [rc.dec_stream(m.dump())[0] for m in rec.sent]
            except rc.RefDecodeError as e:
                return [V("the answer handed to the worker is a well-formed message", "concurrent/answer-undecodable", str(e))]
            for i, r in enumerate(reqs):
                mine = [m for m in sent if m["hbh"] == case["hbh"][i]]
                if len(mine) != 1:
                    vs.append(V("exactly one answer is sent per request, also when requests are handled concurrently",
                                f"concurrent/answers-for-request={len(mine)}", f"request {i} (hbh {case['hbh'][i]:#x}): {len(mine)} answers; all sent hbh {[m['hbh'] for m in sent]}; run={r_}"))
                    continue
                a = mine[0]
                sid = rc.find_avp(a["avps"], 263)
                res = rc.find_avp(a["avps"], 268)
                want_rc = 2001 + i if case["outcomes"][i] == "answer" else 5012
                if a["e2e"] != 7000 + i or len(sid) != 1 or sid[0]["data"] != f"peer;{i};{i}".encode():
                    vs.append(V("the answer carries its own request's identifiers and Session-Id", "concurrent/identity-mixed-up",
                                f"request {i}: e2e {a['e2e']}, Session-Id {[s['data'] for s in sid]}"))
                if len(res) != 1 or int.from_bytes(res[0]["data"], "big") != want_rc:
                    vs.append(V("each request is answered with the answer its own handler invocation produced", "concurrent/wrong-answer-content",
                                f"request {i}: Result-Code {[int.from_bytes(x['data'], 'big') for x in res]}, expected {want_rc}"))
            if len(sent) != n and not vs:
                vs.append(V("exactly one answer is sent per request", f"concurrent/total={len(sent)}", f"{n} requests"))
        finally:
            unreaped = sched.kill_all()
    if unreaped:
        raise RuntimeError(f"harness could not reap threads: {unreaped}")
    seen, out = set(), []
    for v in vs:
        if v.sig not in seen:
            seen.add(v.sig)
            out.append(v)
    return out


def _collect_conc(shard, seed, n):
    col = Collector(PID, RULE)

    def body(case):
        col.record(case, run_concurrent(case), nontrivial=True,
                   classes=["concurrent-dispatch", f"concurrent-n={case['n']}" if not case.get("long") else "long-life-of-one-application-object"]
                   + (["slow-connection"] if case.get("send_delay") else []))

    common.hyp_collect(concurrent_cases(), body, n, seed)
    return col


# ---------------------------------------------------------------------------------------------------------------------
# the poll: requests arrive on one receive queue per connection; the main loop takes them with get_incoming_message()
@st.composite
def poll_cases(draw):
    napps = draw(st.sampled_from([2, 2, 3]))
    rounds = draw(st.lists(st.lists(st.integers(0, 2), min_size=napps, max_size=napps), min_size=1, max_size=4))
    return {"kind": "poll", "napps": napps, "rounds": rounds, "same_code": draw(st.booleans())}


def run_poll(case):
    import struct
    common.bootstrap()
    refdict.all_classes()
    from bromelia.base import DiameterRequest, DiameterAnswer
    errors = common.lib_errors()
    C = refdict.cls_obj
    names = ["s6a", "s13", "gx"][:case["napps"]]
    app, workers = inproc.make_app(names)
    ids = [inproc.APPS[n][2] for n in names]
    code = {a: (316 if case["same_code"] else 316 + k) for k, a in enumerate(ids)}
    log = []
    vs = []

    def mk(a):
        def handler(request):
            log.append((a, request.header.get_hop_by_hop()))
            return DiameterAnswer(command_code=code[a], application_id=a,
                                  avps=[C("SessionIdAVP")(b"x"), C("ResultCodeAVP")(2001), C("OriginHostAVP")("l"), C("OriginRealmAVP")("r")])
        handler.__name__ = f"h_{a}"
        return handler
    for a in ids:
        app.route(application_id=struct.pack(">I", a), command_code=code[a].to_bytes(3, "big"))(mk(a))
    sent = []
    hbh = 0x100
    try:
        for rnd in case["rounds"]:
            for k, n in enumerate(rnd):
                for _ in range(n):
                    hbh += 1
                    r = DiameterRequest(command_code=code[ids[k]], application_id=ids[k],
                                        avps=[C("SessionIdAVP")(f"p;{hbh}".encode()), C("OriginHostAVP")("peer.example"), C("OriginRealmAVP")("peer.realm")])
                    r.header.hop_by_hop = hbh
                    r.header.end_to_end = hbh + 0x1000
                    workers[struct.pack(">I", ids[k])].notify_incoming_message(r)
                    sent.append((ids[k], hbh))
            # the main loop: one poll per tick until the queues are drained (bounded)
            for _ in range(4 * (sum(rnd) + 1)):
                m = app.get_incoming_message()
                if m is not None:
                    app.callback_route(m)
    except (Exception,) + errors as e:
        return [V("polling and dispatching incoming requests does not fail", f"poll/raises/{type(e).__name__}", repr(e))]
    for a, h in sent:
        n = log.count((a, h))
        if n != 1:
            vs.append(V("each request reaches its registered handler exactly once - also when requests wait on several connections "
                        "at the same poll", f"poll/handler-calls/{min(n, 2)}", f"request {(a, hex(h))} ran {n}x; rounds {case['rounds']}"))
            break
    for k, a in enumerate(ids):
        out = inproc.drain(workers[struct.pack(">I", a)])
        want = sorted(h for (x, h) in sent if x == a)
        got = sorted(m.header.get_hop_by_hop() for m in out)
        if got != want:
            vs.append(V("each request gets exactly one answer on its own connection", f"poll/answers/{'missing' if len(got) < len(want) else 'other'}",
                        f"application {a}: answers for {got}, requests {want}"))
            break
    return vs


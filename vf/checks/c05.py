"""C05 - submitted messages are written to the socket exactly once, whole and in order.

Generator : 1..3 submitter threads, each with its own sequence of 1..6 application
            messages (requests and answers, sizes up to > SEND_BUFFER_MAXIMUM_SIZE/3)
            via send_message / send_messages; a partial-write pattern for the fake
            socket; optional concurrent inbound segments (DWR, application
            messages); generated schedule prefix + fair completion; both roles.
Oracle    : everything FakeSock.send accepted, read with the reference decoder, is
            a sequence of whole messages; after filtering base-protocol messages
            the node owes (one DWA per DWR) the rest equals the submitted messages
            as a multiset, each submitter's messages in submission order.
"""
from hypothesis import strategies as st

from .. import common, conc
from .. import refcodec as rc
from ..common import V, Collector
from ..world import World, LOCAL, PEER, app_request, peer_dwr

PID = "C05"
BASE_CMDS = (257, 280, 282)
RULE = ("(submitters x messages, partial-write pattern, inbound traffic, schedule) cases on an open connection in the controlled "
        "world; non-trivial = (>= 2 submitters or >= 1 partial write or inbound data while a write is pending) and the schedule "
        "prefix contains a context switch; distinct by SHA-1 of the case record")


@st.composite
def cases(draw):
    nsub = draw(st.sampled_from([1, 1, 2, 3]))
    subs = []
    bulk = nsub == 1 and draw(st.integers(0, 5)) == 0
    for s in range(nsub):
        k = draw(st.integers(1, 6 if nsub == 1 else 4))
        if bulk:
            # one call of send_messages() with a long list of small messages: list lengths around the powers of two
            k = draw(st.sampled_from([31, 32, 33, 63, 64, 65, 100, 127, 128, 129, 192, 255, 256, 257]))
            kinds = draw(st.sampled_from([["req"], ["req", "ans"], ["generic-req"]]))
            subs.append({"msgs": [{"kind": kinds[j % len(kinds)], "size": 0} for j in range(k)], "api": "send_messages", "gap": 0})
            continue
        msgs = [{"kind": draw(st.sampled_from(["req", "ans", "generic-req", "generic-ans"])),
                 "size": draw(st.sampled_from([0, 1, 5, 100, 3000, 0, 1, 5, 100, 3000, 90000, 90000, 90000, 262100, 270000]))} for _ in range(k)]
        # pause between two submissions of one thread (virtual seconds): several hand-overs to the transport instead of one batch
        subs.append({"msgs": msgs, "api": draw(st.sampled_from(["send_message", "send_message", "send_messages"])),
                     "gap": draw(st.sampled_from([0, 0, 0.004, 0.011, 0.03]))})
    pw = draw(st.sampled_from(["full", "full", "tiny", "random", "boundary", "chunks"]))
    sizes = []
    if pw == "chunks":
        # large partial writes: the unsent remainder stays big (above 64 KiB for the large messages) over several rounds
        sizes = draw(st.lists(st.sampled_from([1000, 20000, 65536, 100000]), min_size=1, max_size=8))
    if pw == "tiny":
        sizes = draw(st.lists(st.sampled_from([1, 2, 3, 7]), min_size=8, max_size=40))
    elif pw == "random":
        sizes = draw(st.lists(st.integers(1, 5000), min_size=1, max_size=20))
    inbound = draw(st.lists(st.sampled_from(["dwr", "app", "app"]), max_size=3))
    # inbound data becomes readable only after the node's k-th send() call (0 = at once): it is then read while a partial
    # write's remainder may still be pending
    inbound_after = 0
    if inbound and draw(st.integers(0, 2)):
        # while partial writes are still going on when there are any
        inbound_after = draw(st.integers(1, max(1, min(len(sizes) - 2, 12)))) if len(sizes) > 2 else draw(st.sampled_from([1, 2, 3]))
    sched = draw(conc.schedules(300))
    return {"role": draw(st.sampled_from(["client", "server"])), "subs": subs, "pw": pw, "sizes": sizes, "inbound": inbound,
            "inbound_after": inbound_after,
            "sched": sched, "lines": draw(st.booleans()) if sched else False, "holds": draw(conc.holds(bias="submitter")),
            "gen2": draw(st.sampled_from([None, None, None, "local-close", "peer-fin", "peer-fin-mid-message"]))}


def build_msgs(case):
    from bromelia.base import DiameterRequest, DiameterAnswer, DiameterMessage, DiameterHeader
    from .. import refdict
    C = refdict.cls_obj
    out = []
    for si, sub in enumerate(case["subs"]):
        lst = []
        for mi, m in enumerate(sub["msgs"]):
            off = (si * 7 + mi) % 253
            pay = (bytes(range(253)) * (m["size"] // 253 + 2))[off:off + m["size"]]
            avps = [C("SessionIdAVP")(f"sub{si};{mi};0".encode()), C("OriginHostAVP")(LOCAL["host"]), C("OriginRealmAVP")(LOCAL["realm"]),
                    C("DestinationRealmAVP")(PEER["realm"])]
            if pay:
                avps.append(C("ClassAVP")(pay))
            if m["kind"] == "req":
                msg = DiameterRequest(command_code=316, application_id=16777251, avps=avps)
            elif m["kind"] == "ans":
                msg = DiameterAnswer(command_code=316, application_id=16777251, avps=avps + [C("ResultCodeAVP")(2001)])
                msg.header.hop_by_hop = 500000 + si * 100 + mi
                msg.header.end_to_end = 600000 + si * 100 + mi
            elif m["kind"] == "generic-ans":
                msg = DiameterMessage(DiameterHeader(flags=0x40, command_code=318, application_id=16777251,
                                                     hop_by_hop=900000 + si * 100 + mi, end_to_end=950000 + si * 100 + mi), avps + [C("ResultCodeAVP")(2001)])
            else:
                msg = DiameterMessage(DiameterHeader(flags=0xC0, command_code=318, application_id=16777251,
                                                     hop_by_hop=700000 + si * 100 + mi, end_to_end=800000 + si * 100 + mi), avps)
            lst.append(msg)
        out.append(lst)
    return out


def run_one(case):
    info = {}
    with World(role=case["role"], apps=["s6a"], line_preempt=case["lines"], max_steps=600000, line_holds=conc.wants_line_holds(case.get("holds"))) as w:
        if not w.open_connection():
            return [V("harness: connection setup failed", "harness/setup", w.state())], info
        if case.get("gen2") and not w.second_generation(case["gen2"]):
            return [V("the same node object can be started again", f"second-connection-failed/{case['gen2']}", w.state())], info
        msgs = build_msgs(case)
        expected = [[m.dump() for m in lst] for lst in msgs]
        sock = w.sock
        base_len = 0        # base-protocol traffic (CER/CEA, DWR/DWA, DPR/DPA) is filtered by command code below
        if case["pw"] == "boundary":
            first = expected[0][0]
            sock.write_sizes.extend([len(first), 1, len(first) - 1 if len(first) > 1 else 1])
        else:
            sock.write_sizes.extend(case["sizes"])
        w.sched.choices = list(case["sched"])
        w.sched.choice_i = 0
        conc.apply_holds(w, case.get("holds"))
        done = []

        def _sleep(d):
            w.sched.point("sleep", pred=lambda: False, timeout=d)

        def submitter(si):
            def run():
                if case["subs"][si]["api"] == "send_messages":
                    w.d.send_messages(msgs[si])
                else:
                    for j, m in enumerate(msgs[si]):
                        if j and case["subs"][si].get("gap"):
                            _sleep(case["subs"][si]["gap"])
                        w.d.send_message(m)
                done.append(si)
            return run
        for si in range(len(msgs)):
            w.call(f"submitter-{si}", submitter(si))
        n_dwr = sum(1 for kind in case["inbound"] if kind == "dwr")
        base_calls = len(sock.send_calls)

        def feed_inbound():
            k_ = case.get("inbound_after", 0)
            if k_:
                # after every submitter has returned (nothing will re-arm the write interest later), the first submitted bytes
                # have reached the socket, and k more send() calls
                heads = [lst[0][:20] for lst in expected if lst]
                w.sched.point("peer.wait", pred=lambda: len(done) >= len(msgs) and any(h in bytes(sock.outbox[-70000:]) for h in heads), timeout=5.0)
                c0 = len(sock.send_calls)
                w.sched.point("peer.wait", pred=lambda: len(sock.send_calls) - c0 >= k_, timeout=3.0)
            for i, kind in enumerate(case["inbound"]):
                if kind == "dwr":
                    w.feed(peer_dwr(9000 + i, 9100 + i))
                else:
                    w.feed(app_request(9200 + i, 9300 + i, dest_realm=LOCAL["realm"]))
        if case.get("inbound_after", 0):
            w.call("peer-writer", feed_inbound)
        else:
            feed_inbound()
        total = sum(len(x) for lst in expected for x in lst)

        def written():
            return bytes(sock.outbox[base_len:])

        memo = [None, False]

        def goal():
            # evaluated at every scheduling step: the decode is redone only when more bytes have reached the socket
            if len(done) < len(msgs):
                return False
            if memo[0] == len(sock.outbox):
                return memo[1]
            memo[0] = len(sock.outbox)
            try:
                dec = rc.dec_stream(written(), strict_tail=True)
            except rc.RefDecodeError:
                memo[1] = False
                return False
            memo[1] = sum(1 for m in dec if m["cmd"] not in BASE_CMDS) >= sum(len(l) for l in expected) and \
                sum(1 for m in dec if m["cmd"] == 280 and not m["flags"] & 0x80) >= n_dwr
            return memo[1]
        r = w.run(goal, 15.0)
        w.run(lambda: False, 1.2)          # let duplicates surface

        def whole():
            try:
                rc.dec_stream(written(), strict_tail=True)
                return True
            except rc.RefDecodeError:
                return False
        if not whole():
            # a write may be in flight (the node's own watchdog request, a delayed transport thread): the stream is judged when it
            # is at a message boundary, or after 5 more virtual seconds
            wm = [None, False]

            def whole_memo():
                if wm[0] != len(sock.outbox):
                    wm[0], wm[1] = len(sock.outbox), whole()
                return wm[1]
            w.run(whole_memo, 5.0)
        out = written()
        info.update(steps=w.sched.steps, switches=w.sched.switches, line_switches=w.sched.line_switches, result=r,
                    partial_writes=sum(1 for a, b in sock.send_calls if 0 < b < a),
                    blocked=[(t.name, t.blocked_on) for t in w.sched.live_threads() if t.state == "blocked" and t.deadline is None],
                    app_errors={k: repr(v[1]) for k, v in w.results.items() if v[0] != "ok"})
        world = w
    if world.unreaped:
        raise RuntimeError(f"harness could not reap threads: {world.unreaped}")
    vs = []
    pw = "partial-writes" if info["partial_writes"] else "full-writes"
    nsub = f"submitters={len(case['subs'])}"
    inb = "inbound" if case["inbound"] else "no-inbound"
    if info["app_errors"]:
        vs.append(V("send_message returns normally on an open connection", f"submit-raises/{pw}", str(info["app_errors"])))
    try:
        dec = rc.dec_stream(out, strict_tail=True)
    except rc.RefDecodeError as e:
        # find out whether a prefix of whole messages + torn tail, or interleaved garbage
        dec_prefix = rc.dec_stream(out, strict_tail=False) if _prefix_ok(out) else None
        kind = "torn-tail" if dec_prefix is not None else "interleaved-or-garbled"
        return vs + [V("bytes written are a sequence of whole messages", f"stream/{kind}/{pw}/{inb}",
                       f"{e}; {len(out)} bytes written; run={info['result']} blocked={info['blocked']}")], info
    got = [m["raw"] for m in dec if m["cmd"] not in BASE_CMDS]
    dwas = [m for m in dec if m["cmd"] == 280 and not m["flags"] & 0x80]      # a DWR the node originates when idle is legitimate
    flat = [x for lst in expected for x in lst]
    missing = [x for x in flat if got.count(x) < flat.count(x)]
    extra = [x for x in set(got) if got.count(x) > flat.count(x)]
    if missing or extra:
        kind = ("lost" if missing else "") + ("+" if missing and extra else "") + ("duplicated" if extra else "")
        vs.append(V("written messages equal the submitted messages: none lost, none duplicated", f"multiset/{kind}/{pw}/{inb}",
                    f"{len(got)} application messages written for {len(flat)} submitted ({len(missing)} missing, {len(extra)} over-represented); "
                    f"run={info['result']} blocked={info['blocked']}"))
    else:
        for si, lst in enumerate(expected):
            it = iter(got)
            if not all(any(x == y for y in it) for x in lst):
                vs.append(V("each submitter's messages are written in its submission order", f"order/{nsub}/{pw}", f"submitter {si}"))
                break
    n_dwr = sum(1 for k in case["inbound"] if k == "dwr")
    if len(dwas) != n_dwr and not missing:
        vs.append(V("base-protocol answers the node owes are written whole, once", f"dwa-count/{pw}/{inb}", f"{len(dwas)} DWA for {n_dwr} DWR"))
    return vs, info


def _prefix_ok(out):
    try:
        rc.dec_stream(out, strict_tail=False)
        return True
    except rc.RefDecodeError:
        return False


def run_case(case):
    return run_one(case)[0]


def _collect(shard, seed, n):
    common.bootstrap()
    from .. import refdict
    refdict.all_classes()
    col = Collector(PID, RULE)

    def body(case):
        vs, info = run_one(case)
        f = {"role=" + case["role"], f"submitters={len(case['subs'])}", "pw=" + case["pw"]}
        if case.get("inbound_after"):
            f.add("inbound-arrives-after-k-sends")
        if any(s_.get("gap") and len(s_["msgs"]) > 1 and s_["api"] == "send_message" for s_ in case["subs"]):
            f.add("staggered-submissions")
        if info.get("partial_writes"):
            f.add("partial-write-happened")
        if case["inbound"]:
            f.add("inbound-traffic")
        if case["sched"] and any(case["sched"]):
            f.add("prefix-with-switch")
        if info.get("line_switches"):
            f.add("preempted-at-source-line")
        if case.get("holds"):
            f.add("targeted-delay")
            if conc.wants_line_holds(case.get("holds")):
                f.add("delay-between-source-lines")
        if case.get("gen2"):
            f.add("second-connection-of-the-object")
        if any(m["size"] >= 90000 for s in case["subs"] for m in s["msgs"]):
            f.add("crosses-send-buffer-limit")
        if any(m["size"] >= 262100 for s in case["subs"] for m in s["msgs"]):
            f.add("single-message-above-batch-limit")
        nt = (len(case["subs"]) >= 2 or "partial-write-happened" in f or "inbound-traffic" in f) and "prefix-with-switch" in f
        if any(len(sub["msgs"]) > 30 for sub in case["subs"]):
            f.add("bulk-list-of-messages")
        col.record(case, vs, nontrivial=nt, classes=sorted(f))
        for k in ("steps", "switches", "line_switches"):
            col.extra["total_" + k] = col.extra.get("total_" + k, 0) + info.get(k, 0)

    common.hyp_collect(cases(), body, n, seed)
    return col


def _rendezvous_sweep(args):
    """Bounded exhaustive sweep: one thread pauses at its n-th source line inside one function of the send path until another thread
    has completed its next hand-over step - the transport thread inside write()/_write()/_set_selector_events_mask()/read() until the
    state machine thread has left its next critical section (= handed over the next batch), and a submitter inside
    send_message()/put_message_into_send_queue() until the state machine thread has taken from the queue.  Three staggered
    messages, optional tiny partial writes and inbound data."""
    role, thread, func, until, nmax = args[:5]
    kinds = args[5] if len(args) > 5 else ["req"]
    common.bootstrap()
    from .. import refdict
    refdict.all_classes()
    col = Collector(PID, RULE)
    for n in range(1, nmax + 1):
        for pw in ("full", "tiny"):
            case = {"role": role, "subs": [{"msgs": [{"kind": kinds[j % len(kinds)], "size": 100} for j in range(3)], "api": "send_message", "gap": 0.011}],
                    "pw": pw, "sizes": [7] * 30 if pw == "tiny" else [], "inbound": ["app"] if pw == "tiny" else [], "inbound_after": 2 if pw == "tiny" else 0,
                    "sched": [], "lines": False, "gen2": None, "holds": [[thread, "line:" + func, n, 0.5, until[0], until[1]]] if until else [[thread, "line:" + func, n, 0.02]]}
            vs, info = run_one(case)
            col.record(case, vs, nontrivial=True, classes=["rendezvous-sweep", "role=" + role, "pw=" + pw])
    return col


def main(ctx):
    col = common.run_shards(_collect, 8 if ctx.quick else 16, ctx.seed, n=140 if ctx.quick else 2500)
    nmax = 10 if ctx.quick else 24
    jobs = [(role, "transport_layer_thread", f, ("PSM", "lock.released"), nmax) for role in ("client", "server")
            for f in ("write", "_write", "_set_selector_events_mask", "read")] + \
           [(role, "submitter-0", f, ("PSM", "queue.get"), nmax) for role in ("client", "server") for f in ("send_message", "put_message_into_send_queue")]
    # the state machine thread pauses (for longer than the submitter's gap) at its n-th line inside the drain of the send queue
    # while the same submitter hands over its next message - requests and answers alternating
    jobs += [(role, "PSM", f, None, nmax + 8, kinds) for role in ("client", "server") for f in ("send_message_from_queue", "run")
             for kinds in (["req", "ans"], ["ans", "req"])]
    for part in common.pmap(_rendezvous_sweep, jobs):
        col.merge(part)
    col.extra["rendezvous_sweep"] = f"{len(jobs)} (thread, function) scenarios x {nmax} line positions x 2 write patterns"
    for path, rec in common.load_replays(PID):
        col.record(rec["case"], run_case(rec["case"]), nontrivial=True, classes=["replay"])
    ctx.required_classes = ["bulk-list-of-messages", "partial-write-happened", "inbound-traffic", "prefix-with-switch", "preempted-at-source-line", "submitters=2",
                            "submitters=3", "role=client", "role=server", "crosses-send-buffer-limit", "single-message-above-batch-limit"]
    ctx.assumptions = ["controlled world (see C04); partial writes accept >= 1 byte; BlockingIOError is never injected on a socket the "
                       "selector reported writable", "only DWAs owed for injected DWRs are filtered out as base traffic"]
    ctx.shrinker = lambda sig, case: common.hyp_shrink(cases(), lambda c: any(v.sig == sig for v in run_case(c)), ctx.seed, n=200, budget_s=60) or case
    return col

"""C18 - TBCD digit encoding round-trips for every digit string.

Generator : exhaustive digit strings (quick: len 0..5, thorough: len 0..7,
            16 processes) + Hypothesis random digit strings up to 20 digits;
            int inputs; MsisdnAVP / StnSrAVP from int and digit str.
Oracle    : independent reference ref_tbcd (nibble swap, 'f' filler only for
            odd lengths); encode == ref; decode(encode(s)) == s;
            AVP.data == bytes.fromhex(ref).
Non-trivial: even length, or length != 13 (the only shape the suite has).
"""
import itertools

from hypothesis import strategies as st

from .. import common
from ..common import V, Collector

PID = "C18"
RULE = ("digit strings enumerated exhaustively by length (no repeats) plus random strings <=20 digits; "
        "non-trivial = length is even or differs from 13 (every example in the suite is a 13-digit number); "
        "distinct by the string itself")


def ref_tbcd(s):
    out = []
    for i in range(0, len(s) - 1, 2):
        out.append(s[i + 1] + s[i])
    if len(s) % 2:
        out.append("f" + s[-1])
    return "".join(out)


def _lib():
    common.bootstrap()
    from bromelia import utils
    return utils


def check_string(s, utils, errors):
    """Returns list of V for one digit string (function-level clauses)."""
    vs = []
    want = ref_tbcd(s)
    par = "even" if len(s) % 2 == 0 else "odd"
    try:
        got = utils.encode_to_tbcd(s)
    except errors as e:
        return [V("encode raises", f"encode-raises/{par}/{type(e).__name__}", f"s={s!r}: {e!r}")]
    except Exception as e:
        return [V("encode raises", f"encode-raises/{par}/{type(e).__name__}", f"s={s!r}: {e!r}")]
    if got != want:
        kind = "returns-None" if got is None else "wrong-digits"
        vs.append(V("encode == 3GPP nibble-swapped form", f"encode/{par}/{kind}",
                    f"encode_to_tbcd({s!r}) = {got!r}, reference {want!r}"))
    # decode is judged on the *reference* encoding so that a broken encoder
    # cannot hide (or cause) a decoder failure
    try:
        back = utils.decode_from_tbcd(want)
    except Exception as e:
        return vs + [V("decode raises", f"decode-raises/{par}/{type(e).__name__}", f"s={s!r}: {e!r}")]
    if back != s:
        kind = "returns-None" if back is None else "wrong-digits"
        vs.append(V("decode(encode(s)) == s", f"decode/{par}/{kind}",
                    f"decode_from_tbcd({want!r}) = {back!r}, expected {s!r}"))
    return vs


JUNK = ["5521*x", "12a", "x", "1 2", "12.5", "-7", "0x12", "١٢٣", "", "12\n", "5521*"]


def check_history(steps, utils, errors):
    """A sequence of calls on the module-level functions, some with input outside the domain (which may raise or return anything):
    every digit string in the sequence must still encode and decode exactly as it does alone."""
    for k, st_ in enumerate(steps):
        if st_["junk"] is not None:
            for f in (utils.encode_to_tbcd, utils.decode_from_tbcd):
                try:
                    f(JUNK[st_["junk"] % len(JUNK)])
                except (Exception,) + errors:
                    pass
            continue
        vs = check_string(st_["s"], utils, errors)
        if vs:
            v = vs[0]
            return [V(v.clause + " - also after calls that were refused", "history/" + v.sig,
                      f"step {k} of {[(x['s'] if x['junk'] is None else 'JUNK:' + JUNK[x['junk'] % len(JUNK)]) for x in steps]}: {v.detail}")]
    return []


def check_avp(n, as_str, cls_name, errors):
    """MSISDN / STN-SR built from a number n (int, or its decimal string)."""
    common.bootstrap()
    if cls_name == "MsisdnAVP":
        from bromelia.avps.etsi_3gpp.ts_129_329 import MsisdnAVP as cls
    else:
        from bromelia.avps.etsi_3gpp.ts_129_272 import StnSrAVP as cls
    s = str(n)
    par = "even" if len(s) % 2 == 0 else "odd"
    want = bytes.fromhex(ref_tbcd(s))
    try:
        avp = cls(s if as_str else n)
        data = avp.data
        dumped = avp.dump()
    except (Exception,) + errors as e:
        return [V("AVP from a number carries the TBCD encoding", f"avp-raises/{par}/{type(e).__name__}",
                  f"{cls_name}({(s if as_str else n)!r}) raised {e!r}")]
    vs = []
    if data != want:
        vs.append(V("AVP from a number carries the TBCD encoding", f"avp-data/{par}",
                    f"{cls_name}({(s if as_str else n)!r}).data = {data!r}, reference {want!r}"))
    # wire image: code, flags 0xC0, length 12+len, vendor 10415, data, zero padding
    code = {"MsisdnAVP": 701, "StnSrAVP": 1433}[cls_name]
    ref = code.to_bytes(4, "big") + b"\xc0" + (12 + len(want)).to_bytes(3, "big") + (10415).to_bytes(4, "big") \
        + want + bytes(-len(want) % 4)
    if dumped != ref:
        vs.append(V("AVP wire image", f"avp-dump/{par}", f"{cls_name}({n}).dump() = {dumped.hex()}, reference {ref.hex()}"))
    return vs


def _sweep_prefix(args):
    """Enumerate all strings of given length with a given first-digit prefix."""
    length, prefix = args
    utils = _lib()
    errors = common.lib_errors()
    col = Collector(PID, RULE)
    n = 0
    rest = length - len(prefix)
    for tail in itertools.product("0123456789", repeat=rest):
        s = prefix + "".join(tail)
        n += 1
        vs = check_string(s, utils, errors)
        for v in vs:
            col.violation({"kind": "string", "s": s}, v)
    nt = n if (length % 2 == 0 or length != 13) else 0
    col.count_enum(n, nt, {f"len={length}": n, ("even" if length % 2 == 0 else "odd"): n})
    return col


def _sweep_structured(length):
    """Longer strings by structure: every two-digit prefix x every two-digit suffix class x a few fillers (the first and last
    octets are where TBCD implementations special-case: TON/NPI-looking first octets, filler nibble, odd/even length)."""
    utils = _lib()
    errors = common.lib_errors()
    col = Collector(PID, RULE)
    n = 0
    k = length - 4
    fillers = ["0" * k, "9" * k, ("1234567890" * 3)[:k], ("97531086420" * 3)[:k]]
    for p in itertools.product("0123456789", repeat=2):
        for suf in ("00", "19", "91", "0f"[:1] + "9", "55"):
            for fill in fillers:
                s = "".join(p) + fill + suf
                n += 1
                for v in check_string(s, utils, errors):
                    col.violation({"kind": "string", "s": s}, v)
    col.count_enum(n, n, {f"structured-len={length}": n, ("even" if length % 2 == 0 else "odd"): n, "structured-long": n})
    return col


LONG_LENGTHS = sorted({k + d for k in (32, 64, 100, 127, 128, 200, 255, 256, 300, 400, 511, 512, 513, 600, 768, 1000, 1023, 1024, 1500, 2047, 2048, 3000,
                                        4095, 4096, 8191, 8192, 10000, 16383, 16384, 32768, 65535, 65536) for d in (-1, 0, 1, 2)})
LONG_PATTERNS = ["0123456789", "9", "19", "91", "0", "1234567", "31415926535897932384626433832795028841971"]


def long_string(n, pat, shift):
    p = LONG_PATTERNS[pat]
    reps = (n + shift) // len(p) + 2
    return (p * reps)[shift:shift + n]


def _sweep_long(length):
    """Long digit strings (the statement says: of any length): boundary lengths around powers of two and round numbers,
    7 repeating patterns x 2 phase shifts; where a table-driven, regex-based or chunked implementation would change behaviour."""
    utils = _lib()
    errors = common.lib_errors()
    col = Collector(PID, RULE)
    n = 0
    for pat in range(len(LONG_PATTERNS)):
        for shift in (0, 1):
            s = long_string(length, pat, shift)
            n += 1
            for v in check_string(s, utils, errors):
                v.detail = v.detail[:300]
                col.violation({"kind": "long", "n": length, "pat": pat, "shift": shift}, v)
    col.count_enum(n, n, {"long-string": n, ("even" if length % 2 == 0 else "odd"): n, f"long-len>={1 << (length.bit_length() - 1)}": n})
    return col


def run_case(case):
    if case.get("kind") == "mid-call":
        from .. import midcall
        return midcall.run_case(case)
    if case.get("kind") == "long":
        return check_string(long_string(case["n"], case["pat"], case["shift"]), _lib(), common.lib_errors())
    utils = _lib()
    errors = common.lib_errors()
    if case["kind"] == "string":
        return check_string(case["s"], utils, errors)
    if case["kind"] == "history":
        return check_history(case["steps"], utils, errors)
    if case["kind"] == "int":
        vs = []
        s = str(case["n"])
        try:
            got = utils.encode_to_tbcd(case["n"])
        except Exception as e:
            return [V("encode raises", f"encode-int-raises/{type(e).__name__}", repr(e))]
        if got != ref_tbcd(s):
            par = "even" if len(s) % 2 == 0 else "odd"
            vs.append(V("encode(int) == encode(str(int))", f"encode/{par}/" + ("returns-None" if got is None else "wrong-digits"),
                        f"encode_to_tbcd({case['n']}) = {got!r}, reference {ref_tbcd(s)!r}"))
        return vs
    if case["kind"] == "avp":
        return check_avp(case["n"], case["as_str"], case["cls"], errors)
    raise ValueError(case)


def main(ctx):
    import multiprocessing
    col = Collector(PID, RULE)
    maxlen = 5 if ctx.quick else 7
    # committed regression replays first
    for path, rec in common.load_replays(PID):
        col.record(rec["case"], run_case(rec["case"]), nontrivial=True, classes=["replay"])
    # exhaustive sweep
    jobs = []
    for length in range(0, maxlen + 1):
        if length <= 3:
            jobs.append((length, ""))
        else:
            for p in itertools.product("0123456789", repeat=2 if length >= 6 else 1):
                jobs.append((length, "".join(p)))
    for part in common.pmap(_sweep_prefix, jobs):
        col.merge(part)
    for part in common.pmap(_sweep_structured, list(range(6, 25 if ctx.quick else 41))):
        col.merge(part)
    for part in common.pmap(_sweep_long, [n for n in LONG_LENGTHS if ctx.quick is False or n <= 20000]):
        col.merge(part)
    col.exhaustive = True
    col.extra["exhaustive_scope"] = f"all digit strings of length 0..{maxlen} ({sum(10**k for k in range(maxlen + 1))} strings)"
    col.samples = [{"kind": "string", "s": "", "ref": ""}, {"kind": "string", "s": "1234", "ref": ref_tbcd("1234")},
                   {"kind": "string", "s": "90817", "ref": ref_tbcd("90817")}]

    # random longer strings, ints and AVPs
    n_rand = 3000 if ctx.quick else 60000
    digits = st.one_of(st.text(alphabet="0123456789", min_size=0, max_size=20), st.text(alphabet="0123456789", min_size=0, max_size=20),
                       st.text(alphabet="0123456789", min_size=21, max_size=1400))
    numbers = st.one_of(st.integers(0, 10**20 - 1),
                        st.integers(1, 20).flatmap(lambda k: st.integers(10**(k - 1), 10**k - 1)))
    step = st.one_of(digits.map(lambda s: {"s": s, "junk": None}), st.integers(0, 50).map(lambda j: {"s": None, "junk": j}))
    cases = st.one_of(
        st.lists(step, min_size=2, max_size=6).map(lambda steps: {"kind": "history", "steps": steps}),
        digits.map(lambda s: {"kind": "string", "s": s}),
        numbers.map(lambda n: {"kind": "int", "n": n}),
        st.builds(lambda n, a, c: {"kind": "avp", "n": n, "as_str": a, "cls": c},
                  numbers, st.booleans(), st.sampled_from(["MsisdnAVP", "StnSrAVP"])),
    )

    def body(case):
        vs = run_case(case)
        if case["kind"] == "history":
            mixed = any(x["junk"] is not None for x in case["steps"]) and any(x["junk"] is None for x in case["steps"])
            col.record(case, vs, nontrivial=mixed, classes=["history"] + (["refused-call-then-digit-string"] if mixed else []))
            return
        s = case["s"] if case["kind"] == "string" else str(case["n"])
        col.record(case, vs, nontrivial=(len(s) % 2 == 0 or len(s) != 13),
                   classes=[case["kind"], "even" if len(s) % 2 == 0 else "odd", f"rand-len={len(s)}"])

    common.hyp_collect(cases, body, n_rand, ctx.seed)
    list(common.first_use_sweep(col, "c18", "encode/decode agree with the reference - from the first call of the process, in every thread"))
    from .. import midcall
    midcall.sweep(col, "c18", "encoding, decoding and the MSISDN / STN-SR AVPs carry the reference TBCD form - whatever another thread is encoding at the same time",
                  ks=[1, 2] if ctx.quick else list(range(1, len(midcall.C18_STRINGS))), nmax=760, chunk=24)
    ctx.required_classes = ["mid-call-parked", "first-use-parked-mid-call", "long-string", "string", "int", "avp", "even", "odd", "structured-long", "refused-call-then-digit-string"]
    ctx.assumptions = ["digit strings only (the statement's domain); ints have no leading zero; "
                       "special TBCD characters (*, #, a-c) are outside the statement"]

    def shrinker(sig, case):
        return common.hyp_shrink(cases, lambda c: any(v.sig == sig for v in run_case(c)), ctx.seed, n=2000, budget_s=30) or case
    ctx.shrinker = shrinker
    return col

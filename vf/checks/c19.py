"""C19 - a configuration is reflected faithfully or rejected, never silently altered.

Generator : dictionaries holding all 12 keys in a generated key order, each
            value from valid U invalid strategies, 0..2 unknown keys; the same
            through Diameter(config=...); YAML spec lists of 1..4 entries
            written to a temp file and read by _convert_file_to_config.
Oracle    : all values valid => Connection fields equal the configured values
            exactly; otherwise InvalidConfigKey/InvalidConfigValue; never
            another exception, never silent acceptance.
"""
import os
import tempfile

from hypothesis import strategies as st

from .. import common
from ..common import V, Collector

PID = "C19"
RULE = ("complete 12-key configuration dictionaries in generated key order with per-key valid/invalid values and optional "
        "unknown keys, plus YAML spec files of 1..4 entries; non-trivial = at least one invalid value or unknown key, or a "
        "non-canonical key order, or a YAML list with >= 2 entries; distinct by SHA-1 of the case record")

KEYS = ["MODE", "TRANSPORT_TYPE", "APPLICATIONS", "LOCAL_NODE_HOSTNAME", "LOCAL_NODE_REALM", "LOCAL_NODE_IP_ADDRESS",
        "LOCAL_NODE_PORT", "PEER_NODE_HOSTNAME", "PEER_NODE_REALM", "PEER_NODE_IP_ADDRESS", "PEER_NODE_PORT", "WATCHDOG_TIMEOUT"]

# JSON-friendly value specs: ["v", python-literal] valid | ["x", literal] invalid ; bytes as {"$b": hex}
B = lambda h: {"$b": h}


def unjson(v):
    if isinstance(v, dict) and "$b" in v:
        return bytes.fromhex(v["$b"])
    if isinstance(v, dict) and "$float" in v:
        return float(v["$float"])
    if isinstance(v, list):
        return [unjson(x) for x in v]
    if isinstance(v, dict):
        return {k: unjson(x) for k, x in v.items()}
    return v


octet = st.one_of(st.sampled_from([0, 1, 10, 127, 255]), st.integers(0, 255))
ipv4 = st.builds(lambda a, b, c, d: f"{a}.{b}.{c}.{d}", octet, octet, octet, octet)
bad_ip = st.one_of(
    st.sampled_from(["", "1.2.3", "1.2.3.4.5", "256.1.1.1", "1.2.3.256", "01.2.3.4", "1.2.3.04", "10.0.0.0/24", "::1", "2001:db8::1",
                     "localhost", "1.2.3.4 ", " 1.2.3.4", "1.2.3.-4", "1..2.3", "a.b.c.d", "0x1.2.3.4", None,
                     # a well-formed quad followed by a line feed / tab, and quads written with non-ASCII decimal digits
                     "127.0.0.1\n", "10.0.0.1\r\n", "10.0.0.1\t", "\n10.0.0.1", "10.0.0.\u0663", "1\uff12\uff17.0.0.1", "\u0661\u0660.0.0.1"]),
    st.builds(lambda a, b, c, d, t: f"{a}.{b}.{c}.{d}{t}", octet, octet, octet, octet, st.sampled_from(["\n", "\r", "\x0b", "\x00", "\u2028"])),
    st.builds(lambda a, b, c: f"{a}.{b}.{c}", octet, octet, octet),
    st.builds(lambda a, b, c, d: f"{a}.{b}.{c}.{d}", st.integers(256, 999), octet, octet, octet),
)
host = st.one_of(st.sampled_from(["mme.epc.example.org", "hss", "a", "host-1.example.com", "hé.example"]),
                 st.text(alphabet="abcdefghijklmnopqrstuvwxyz0123456789.-", min_size=1, max_size=30))
port = st.one_of(st.sampled_from([3868, 1, 65535, 0]), st.integers(0, 65535))
app = st.builds(lambda v, a: {"vendor_id": B(v), "app_id": B(a)},
                st.sampled_from(["000028af", "00000000", "00002a2f"]), st.sampled_from(["01000023", "01000030", "00000004", "ffffffff"]))
apps_valid = st.lists(app, min_size=0, max_size=3)
apps_invalid = st.one_of(
    st.lists(st.builds(lambda a, bad: dict(a, **bad), app,
                       st.sampled_from([{"vendor_id": 10415}, {"app_id": 16777251}, {"app_id": "01000023"}, {"vendor_id": None},
                                        {"app_id": {"$float": "1.5"}}])), min_size=1, max_size=2),
)
VALID = {
    "MODE": st.sampled_from(["CLIENT", "SERVER"]),
    "TRANSPORT_TYPE": st.sampled_from(["TCP", "SCTP"]),
    "APPLICATIONS": apps_valid,
    "LOCAL_NODE_HOSTNAME": host, "LOCAL_NODE_REALM": host, "PEER_NODE_HOSTNAME": host, "PEER_NODE_REALM": host,
    "LOCAL_NODE_IP_ADDRESS": ipv4, "PEER_NODE_IP_ADDRESS": ipv4,
    "LOCAL_NODE_PORT": port, "PEER_NODE_PORT": port,
    "WATCHDOG_TIMEOUT": st.one_of(st.sampled_from([0, 1, 30, 60, 2**31]), st.integers(0, 10**6)),
}
INVALID = {
    "MODE": st.sampled_from(["client", "Client", "server", "PROXY", "", "CLIENT ", 1, None, ["CLIENT"], "C", "LIENT", "SERVE", "CLIENTSERVER", "ENT"]),
    "TRANSPORT_TYPE": st.sampled_from(["tcp", "Tcp", "sctp", "UDP", "TLS", "TCP ", 6, ["TCP"], "T", "CP", "SCT", "TCPSCTP", "PS", "TCP,SCTP", "TCP\n"]),
    "APPLICATIONS": apps_invalid,
    "LOCAL_NODE_IP_ADDRESS": bad_ip, "PEER_NODE_IP_ADDRESS": bad_ip,
    "WATCHDOG_TIMEOUT": st.sampled_from(["30", {"$float": "30.0"}, {"$float": "1.5"}, None, "", [30], B("0000001e")]),
}


@st.composite
def config_case(draw):
    n_bad = draw(st.sampled_from([0, 0, 0, 1, 1, 2]))
    bad_keys = draw(st.lists(st.sampled_from(sorted(INVALID)), min_size=n_bad, max_size=n_bad, unique=True)) if n_bad else []
    items = []
    for k in KEYS:
        if k in bad_keys:
            items.append([k, draw(INVALID[k]), False])
        else:
            items.append([k, draw(VALID[k]), True])
    extra = draw(st.sampled_from([[], [], [], [], [], [], [], [], [], [], [], ["UNKNOWN_KEY"], ["mode"], ["Mode", "TRANSPORT"], ["LOCAL_NODE_IPADDRESS"], ["WATCHDOG"]]))
    for e in extra:
        items.append([e, draw(st.sampled_from(["x", 1, None])), None])
    order = draw(st.sampled_from(["canonical", "shuffled", "reversed", "shuffled"]))
    if order == "shuffled":
        items = list(draw(st.permutations(items)))
    elif order == "reversed":
        items = items[::-1]
    via = draw(st.sampled_from(["function", "function", "Diameter"]))
    return {"kind": "dict", "items": items, "order": order, "via": via}


def check_dict(case):
    common.bootstrap()
    from bromelia._internal_utils import _convert_config_to_connection_obj
    from bromelia.exceptions import InvalidConfigKey, InvalidConfigValue
    errors = common.lib_errors()
    cfg = {k: unjson(v) for k, v, _ in case["items"]}
    unknown = [k for k, _, ok in case["items"] if ok is None]
    invalid = [k for k, _, ok in case["items"] if ok is False]
    try:
        if case["via"] == "Diameter":
            from bromelia.setup import Diameter
            d = Diameter(config=dict(cfg))
            conn = d._connection
        else:
            conn = _convert_config_to_connection_obj(dict(cfg))
        exc = None
    except (InvalidConfigKey, InvalidConfigValue) as e:
        conn, exc = None, e
    except (Exception,) + errors as e:
        what = "unknown-key" if unknown else ("invalid-" + "+".join(sorted(invalid)) if invalid else "valid")
        if case["via"] == "Diameter" and not unknown and not invalid:
            # base-message construction may refuse exotic but "valid" host strings; not a configuration verdict
            return "discard", f"Diameter() refused a valid config: {type(e).__name__}", []
        return "ok", None, [V("rejection uses the library's configuration error", f"foreign-exception/{what}/{type(e).__name__}",
                                f"{type(e).__name__}: {e!r}")]
    if unknown or invalid:
        if exc is None:
            what = "unknown-key" if unknown else "invalid-" + "+".join(sorted(invalid))
            bad = {k: cfg[k] for k in (unknown + invalid)}
            return "ok", None, [V("unknown keys / invalid values are never silently accepted", f"accepted/{what}", f"{bad!r} accepted")]
        if unknown and not isinstance(exc, InvalidConfigKey):
            return "ok", None, [V("unknown keys raise InvalidConfigKey", "unknown-key-wrong-error", repr(exc))]
        return "ok", None, []
    if exc is not None:
        return "ok", None, [V("a configuration whose values are all valid is accepted", f"rejected-valid/{type(exc).__name__}", repr(exc))]
    want = {
        "mode": cfg["MODE"], "transport_type": cfg["TRANSPORT_TYPE"], "application_ids": cfg["APPLICATIONS"],
        "watchdog_timeout": cfg["WATCHDOG_TIMEOUT"],
        "local": (cfg["LOCAL_NODE_HOSTNAME"], cfg["LOCAL_NODE_REALM"], cfg["LOCAL_NODE_IP_ADDRESS"], cfg["LOCAL_NODE_PORT"]),
        "peer": (cfg["PEER_NODE_HOSTNAME"], cfg["PEER_NODE_REALM"], cfg["PEER_NODE_IP_ADDRESS"], cfg["PEER_NODE_PORT"]),
    }
    got = {
        "mode": conn.mode, "transport_type": conn.transport_type, "application_ids": conn.application_ids,
        "watchdog_timeout": conn.watchdog_timeout,
        "local": (conn.local_node.host_name, conn.local_node.realm, conn.local_node.ip_address, conn.local_node.port),
        "peer": (conn.peer_node.host_name, conn.peer_node.realm, conn.peer_node.ip_address, conn.peer_node.port),
    }
    vs = []
    for k in want:
        if got[k] != want[k] or type(got[k]) is not type(want[k]):
            vs.append(V("connection description equals the configured values exactly", f"altered/{k}/order={case['order']}",
                        f"{got[k]!r} != {want[k]!r}"))
    return "ok", None, vs


# ---------------------------------------------------------------- YAML
APP_NAMES = [("VENDOR_ID_3GPP", "DIAMETER_APPLICATION_S6a_S6d"), ("VENDOR_ID_3GPP", "DIAMETER_APPLICATION_SWm"),
             ("VENDOR_ID_3GPP", "DIAMETER_APPLICATION_Gx"), ("VENDOR_ID_DEFAULT", "DIAMETER_APPLICATION_DEFAULT"),
             ("VENDOR_ID_3GPP", "DIAMETER_APPLICATION_Rx"), ("VENDOR_ID_3GPP", "DIAMETER_APPLICATION_SWx")]


@st.composite
def yaml_case(draw):
    """the file is read once, or (1 case in 3) rewritten and read again at the same path: `earlier` documents come first"""
    case = draw(yaml_doc())
    if draw(st.integers(0, 2)) == 0:
        case["earlier"] = [draw(yaml_doc())["specs"] for _ in range(draw(st.integers(1, 2)))]
    return case


@st.composite
def yaml_doc(draw):
    n = draw(st.sampled_from([1, 2, 2, 3, 4]))
    specs = []
    for _ in range(n):
        spec = {
            "applications": [{"vendor_id": v, "app_id": a} for v, a in draw(st.lists(st.sampled_from(APP_NAMES), min_size=0, max_size=2))],
            "mode": draw(st.sampled_from(["Client", "Server", "client", "SERVER", "cLiEnT"])),
            "watchdog_timeout": draw(st.integers(1, 600)),
            "local": {"ip_address": draw(ipv4), "hostname": draw(host), "realm": draw(host), "port": draw(port)},
            "peer": {"ip_address": draw(ipv4), "hostname": draw(host), "realm": draw(host), "port": draw(port)},
        }
        tt = draw(st.sampled_from([None, None, "TCP", "tcp", "SCTP", "sctp", "Sctp", "<null>", "<empty>"]))
        if tt == "<null>":
            spec["transport_type"] = None            # `transport_type:` left empty in the file: the optional key names no transport
        elif tt == "<empty>":
            spec["transport_type"] = ""
        elif tt is not None:
            spec["transport_type"] = tt
        specs.append(spec)
    return {"kind": "yaml", "specs": specs}


def check_yaml(case):
    """documents written one after the other to the same path, each loaded and judged (a configuration file that is edited and
    read again must be reflected as it is now)"""
    fd, path = tempfile.mkstemp(prefix="c19-", suffix=".yaml")
    os.close(fd)
    try:
        docs = list(case.get("earlier") or []) + [case["specs"]]
        for i, specs in enumerate(docs):
            status, why, vs = check_yaml_doc({"kind": "yaml", "specs": specs}, path)
            if vs and i > 0:
                for v in vs:
                    v.sig += "/file-rewritten-at-the-same-path"
            if vs or status != "ok":
                return status, why, vs
        return "ok", None, []
    finally:
        if os.path.exists(path):
            os.unlink(path)


def check_yaml_doc(case, path):
    common.bootstrap()
    import yaml
    import bromelia.bromelia as bb
    from bromelia import constants
    from bromelia._internal_utils import _convert_file_to_config, _convert_config_to_connection_obj
    errors = common.lib_errors()
    doc = {"api_version": "v1", "name": "verif", "spec": case["specs"]}
    with open(path, "w") as f:
        yaml.safe_dump(doc, f)
    try:
        cfgs = _convert_file_to_config(path, vars(bb))
        conns = [_convert_config_to_connection_obj(c) for c in cfgs]
    except (Exception,) + errors as e:
        return "ok", None, [V("a valid YAML spec is accepted", f"yaml-raises/{type(e).__name__}", repr(e))]
    vs = []
    if len(conns) != len(case["specs"]):
        return "ok", None, [V("one description per spec entry, in order", "yaml/count", f"{len(conns)} != {len(case['specs'])}")]
    for i, (s, c) in enumerate(zip(case["specs"], conns)):
        want_tt = (s.get("transport_type") or "tcp").upper()
        if c.transport_type != want_tt:
            prev = [x.get("transport_type") for x in case["specs"][:i]]
            why = "default-leaks-from-earlier-entry" if not s.get("transport_type") else "named"
            vs.append(V("transport case-normalised, TCP when the entry names none", f"yaml/transport/{why}",
                        f"entry {i}: {c.transport_type} != {want_tt} (earlier entries: {prev})"))
        if c.mode != s["mode"].upper():
            vs.append(V("mode case-normalised", "yaml/mode", f"entry {i}: {c.mode}"))
        want_apps = [{"vendor_id": getattr(constants, a["vendor_id"]), "app_id": getattr(constants, a["app_id"])} for a in s["applications"]]
        if c.application_ids != want_apps:
            vs.append(V("application constants resolved by name", "yaml/applications", f"entry {i}: {c.application_ids} != {want_apps}"))
        got = (c.local_node.host_name, c.local_node.realm, c.local_node.ip_address, c.local_node.port,
               c.peer_node.host_name, c.peer_node.realm, c.peer_node.ip_address, c.peer_node.port, c.watchdog_timeout)
        want = (s["local"]["hostname"], s["local"]["realm"], s["local"]["ip_address"], s["local"]["port"],
                s["peer"]["hostname"], s["peer"]["realm"], s["peer"]["ip_address"], s["peer"]["port"], s["watchdog_timeout"])
        if got != want:
            vs.append(V("identities, addresses, ports and watchdog equal the spec entry", "yaml/fields", f"entry {i}: {got} != {want}"))
    seen, out = set(), []
    for v in vs:
        if v.sig not in seen:
            seen.add(v.sig)
            out.append(v)
    return "ok", None, out


def run_case(case):
    return (check_yaml(case) if case["kind"] == "yaml" else check_dict(case))[2]


def _collect(shard, seed, n_dict, n_yaml):
    common.bootstrap()
    col = Collector(PID, RULE)

    def body(case):
        status, why, vs = check_dict(case)
        unknown = any(ok is None for _, _, ok in case["items"])
        invalid = sorted(k for k, _, ok in case["items"] if ok is False)
        f = ["dict", "via=" + case["via"], "order=" + case["order"]] + ["invalid:" + k for k in invalid]
        if unknown:
            f.append("unknown-key")
        if not unknown and not invalid:
            f.append("all-valid")
        col.record(case, vs, nontrivial=(unknown or bool(invalid) or case["order"] != "canonical") and status == "ok", classes=f, discard=why)

    common.hyp_collect(config_case(), body, n_dict, seed)

    def body2(case):
        status, why, vs = check_yaml(case)
        f = ["yaml", f"yaml-entries={len(case['specs'])}"] + (["yaml-file-rewritten-and-read-again"] if case.get("earlier") else [])
        tts = [bool(s.get("transport_type")) for s in case["specs"]]
        if any(a and not b for a, b in zip(tts, tts[1:])):
            f.append("yaml-omitted-after-named")
        col.record(case, vs, nontrivial=len(case["specs"]) >= 2, classes=f)

    common.hyp_collect(yaml_case(), body2, n_yaml, seed)
    return col


def main(ctx):
    if ctx.quick:
        col = common.run_shards(_collect, 8, ctx.seed, n_dict=400, n_yaml=40)
    else:
        col = common.run_shards(_collect, 16, ctx.seed, n_dict=20000, n_yaml=2000)
    for path, rec in common.load_replays(PID):
        col.record(rec["case"], run_case(rec["case"]), nontrivial=True, classes=["replay"])
    ctx.required_classes = ["all-valid", "unknown-key", "via=Diameter", "order=shuffled", "yaml-omitted-after-named", "yaml-file-rewritten-and-read-again"] + ["invalid:" + k for k in INVALID]
    ctx.assumptions = ["all 12 keys always present; booleans not generated; non-string IP values other than None not generated; "
                       "a falsy TRANSPORT_TYPE is not generated (treated by Config as absent)",
                       "APPLICATIONS invalid values: a non-bytes value inside an application entry (shape errors such as a "
                       "non-list are not generated)"]
    strat = st.one_of(config_case(), yaml_case())
    ctx.shrinker = lambda sig, case: common.hyp_shrink(yaml_case() if case["kind"] == "yaml" else config_case(),
                                                       lambda c: any(v.sig == sig for v in run_case(c)), ctx.seed, n=2000, budget_s=30) or case
    return col

"""C14 - a waiting sender gets its own answer, matched by Hop-by-Hop id, and always wakes.

Generator : k = 1..4 caller threads calling the real Bromelia.send_message(req)
            (distinct Hop-by-Hop ids, some differing in one byte; optionally spread
            over two connections = two workers, where the same Hop-by-Hop id may be
            outstanding on both); an in-process
            Worker whose real send_handler loop runs as a controlled thread; a
            scripted network thread that, for each request leaving the worker,
            runs the real handler_pending_answers(answer) in its own controlled
            thread, in a generated arrival permutation and with generated delays
            (including zero: the answer is handled immediately after the request
            left); optional duplicate and unsolicited answers; generated schedule
            prefix (optionally with source-line preemption) + fair completion.
Oracle    : every caller returns within the virtual horizon and its return value
            is the answer object created for its request (identity); no answer is
            returned to two callers; the pending-answer registry is empty.
"""
import struct

from hypothesis import strategies as st

from .. import common, conc, inproc
from ..common import V, Collector
from ..dsched import Scheduler, Net, Patch, ShimEvent, ShimQueue, ShimLock, Killed

PID = "C14"
RULE = ("(callers, answer arrival permutation and delays, duplicates/unsolicited, schedule) cases on a real Bromelia object with an "
        "in-process worker under the controlled scheduler; non-trivial = k >= 2 with a non-identity arrival order, or an answer "
        "dispatched with zero delay (it can be handled between enqueue and registration); distinct by SHA-1 of the case record")

HBH = [0x01020304, 0x01020305, 0x01020404, 0xFFFFFFFF, 0x00000000, 0x80000000, 0x7FFFFFFF, 0x0A0B0C0D]


LINE_FUNCS = ["is_pending_answer", "is_pending_answer", "get_pending_answer", "remove_pending_answer", "insert_pending_answer", "handler_pending_answers",
              "send_message", "wait", "notify", "update_msg", "@exit"]


class ShimManager:
    def __init__(self, sched):
        self.s = sched

    def Event(self):
        return ShimEvent(self.s)

    def Queue(self):
        return ShimQueue(self.s)

    def Lock(self):
        return ShimLock(self.s)


@st.composite
def cases(draw):
    k = draw(st.sampled_from([1, 2, 2, 3, 4]))
    # callers may use two connections (one worker per application); Hop-by-Hop identifiers are unique per connection only
    two = k >= 2 and draw(st.booleans())
    apps = [draw(st.sampled_from(["s6a", "gx"])) if two else "s6a" for _ in range(k)]
    raw = draw(st.lists(st.sampled_from(HBH[:4] if two else HBH), min_size=k, max_size=k, unique=not two))
    hbh, used = [], set()
    for a, h in zip(apps, raw):
        while (a, h) in used:
            h = HBH[(HBH.index(h) + 1) % len(HBH)]
        used.add((a, h))
        hbh.append(h)
    perm = list(draw(st.permutations(list(range(k)))))
    delays = [draw(st.sampled_from([0.0, 0.0, 0.001, 0.01, 0.2])) for _ in range(k)]
    extras = draw(st.lists(st.sampled_from(["dup", "unsolicited"]), max_size=2))
    sched = draw(conc.schedules(250))
    hold = draw(st.sampled_from([None, None, 0, k - 1]))
    # directed delay: one thread pauses at its n-th source line inside one of the registry / rendezvous functions while the others go on
    lhold = None
    if draw(st.integers(0, 3)) == 0:
        lhold = [draw(st.sampled_from(["answer", "answer", "caller"])) + "-" + str(draw(st.integers(0, k - 1))), draw(st.sampled_from(LINE_FUNCS)),
                 draw(st.integers(1, 6)), draw(st.sampled_from([0.001, 0.02, 0.3]))]
    # fault: the hand-over to the worker process fails once for one caller (a manager proxy raises on a broken pipe); the caller
    # simply sends the same request again
    fault = draw(st.sampled_from([None, None, None, 0, k - 1]))
    # what the answers carry (legal content a log line or a "tidy" code path may trip over), and whether they were decoded from bytes
    flavors = [draw(st.sampled_from([None, None, "error-message-non-ascii", "binary-user-name", "e-bit-5012", "experimental", "failed-avp", "decoded",
                                     "decoded+error-message-non-ascii"])) for _ in range(k)]
    return {"flavors": flavors, "via_main": draw(st.booleans()), "k": k, "hbh": hbh, "apps": apps, "lhold": lhold, "fault": fault, "perm": perm, "delays": delays, "extras": extras, "sched": sched, "hold": hold,
            "lines": draw(st.booleans()) if sched else False, "stagger": draw(st.sampled_from([0.0, 0.0, 0.005]))}


class Recorder:
    """stands in for the Diameter connection object behind the worker: records what leaves the worker"""
    def __init__(self, config, sched=None, delay=0.0):
        self.config = config
        self.sent = []
        self.sched, self.delay = sched, delay

    def send_message(self, msg):
        if self.sched is not None and self.delay:
            self.sched.point("sleep", pred=lambda: False, timeout=self.delay)        # a slow connection: the send takes virtual time
        self.sent.append(msg)

    def send_messages(self, msgs):
        self.sent.extend(msgs or [])


def run_one(case):
    common.bootstrap()
    from .. import refdict
    refdict.all_classes()
    errors = common.lib_errors()
    info = {}
    sched = Scheduler(choices=None, line_preempt=case["lines"], trace_prefix=common.REPO.rstrip("/") + "/bromelia/", max_steps=300000,
                      line_holds=bool(case.get("lhold")))
    net = Net(sched)
    results = {}
    vs = []
    with Patch(sched, net):
        sched.register_driver()
        try:
            import bromelia.bromelia as bb
            from bromelia.base import DiameterRequest, DiameterAnswer
            C = refdict.cls_obj
            apps_of = case.get("apps") or ["s6a"] * case["k"]
            names = sorted(set(apps_of), reverse=True)
            app, workers = inproc.make_app(names, manager=ShimManager(sched))
            APP_ID = {n: inproc.APPS[n][2] for n in names}
            the_workers, recs = [], []
            for n in names:
                wk = workers[struct.pack(">I", APP_ID[n])]
                rc_ = Recorder(wk.app.config)
                wk.app = rc_
                the_workers.append(wk)
                recs.append(rc_)
            reqs, answers = [], []
            for i in range(case["k"]):
                aid = APP_ID[apps_of[i]]
                r = DiameterRequest(command_code=316, application_id=aid,
                                    avps=[C("SessionIdAVP")(f"s;{i}".encode()), C("OriginHostAVP")("h"), C("OriginRealmAVP")("r")])
                r.header.hop_by_hop = case["hbh"][i]
                r.header.end_to_end = 1000 + i
                reqs.append(r)
                a = DiameterAnswer(command_code=316, application_id=aid,
                                   avps=[C("SessionIdAVP")(f"s;{i}".encode()), C("ResultCodeAVP")(2001 + i)])
                a.header.hop_by_hop = case["hbh"][i]
                a.header.end_to_end = 1000 + i
                fl = (case.get("flavors") or [None] * case["k"])[i] or ""
                if "error-message-non-ascii" in fl:
                    a.append(C("ErrorMessageAVP")("d\u00e9sol\u00e9 \u2713 \u65e5\u672c"))
                if "binary-user-name" in fl:
                    a.append(C("UserNameAVP")(b"\xff\xfe\x00user"))
                if "e-bit-5012" in fl:
                    a.result_code_avp.data = (5012).to_bytes(4, "big")
                    a.header.set_error_bit(True)
                if "experimental" in fl:
                    a.append(C("ExperimentalResultAVP")([C("VendorIdAVP")(10415), C("ExperimentalResultCodeAVP")(5420)]))
                if "failed-avp" in fl:
                    a.append(C("FailedAvpAVP")([C("UserNameAVP")("bad")]))
                if "decoded" in fl:
                    from bromelia.base import DiameterMessage
                    a = DiameterMessage.load(a.dump())[0]
                answers.append(a)
            for n, wk in zip(names, the_workers):
                sched.spawn(wk.send_handler, "send_handler" if n == "s6a" else f"send_handler-{n}")

            class FailOnce:
                """the worker's hand-over lock as seen through a manager proxy whose pipe breaks once, for one thread"""
                def __init__(self, real, victim):
                    self.real, self.victim, self.done = real, victim, False

                def acquire(self, *a, **kw):
                    cur = sched.current
                    if not self.done and cur is not None and cur.name == self.victim:
                        self.done = True
                        raise BrokenPipeError("manager proxy: broken pipe")
                    return self.real.acquire(*a, **kw)

                def __getattr__(self, name):
                    return getattr(self.real, name)
            if case.get("fault") is not None:
                fw = the_workers[names.index(apps_of[case["fault"]])]
                fw.send_lock = FailOnce(fw.send_lock, f"caller-{case['fault']}")

            def caller(i):
                def run():
                    try:
                        if case["stagger"] and i:
                            bb.time.sleep(case["stagger"] * i)
                        try:
                            results[i] = ("ok", app.send_message(reqs[i]))
                        except BrokenPipeError:
                            results[i] = ("ok", app.send_message(reqs[i]))           # the application retries the same request
                    except Killed:
                        raise
                    except (Exception,) + errors as e:
                        results[i] = ("error", e)
                return run

            dispatched = []
            started = {}

            def dispatch(msg, name, idx=None):
                """hands an answer to the application layer: through the real create_message_thread (as Bromelia.main does after
                the poll) or directly in a thread of the harness"""
                if case.get("via_main"):
                    t = app.create_message_thread(msg)
                    if idx is not None:
                        started[idx] = t
                else:
                    sched.spawn(lambda: app.handler_pending_answers(msg), name)

            def network():
                for j, idx in enumerate(case["perm"]):
                    sched.point("net.wait", pred=lambda idx=idx: any(m is reqs[idx] for r_ in recs for m in r_.sent), timeout=None)
                    if case["delays"][j]:
                        bb.time.sleep(case["delays"][j])
                    dispatched.append(idx)
                    dispatch(answers[idx], f"answer-{idx}", idx)
                    for x, kind in enumerate(case["extras"]):
                        if kind == "dup" and j == 0:
                            dispatch(answers[idx], f"answer-dup-{idx}")
                        if kind == "unsolicited" and j == 0:
                            u = DiameterAnswer(command_code=316, application_id=16777251, avps=[C("ResultCodeAVP")(2001)])
                            u.header.hop_by_hop = 0x55AA55AA
                            dispatch(u, "answer-unsolicited")

            sched.choices = list(case["sched"])
            sched.choice_i = 0
            if case.get("hold") is not None:
                # targeted schedule: caller h is not scheduled between queueing its request and registering as a waiter
                # until its answer has been handled (or 5 virtual seconds have passed)
                h = case["hold"]
                sched.hold(f"caller-{h}", "event.set", 1,
                           lambda: any(t.name == f"answer-{h}" and t.state == "finished" for t in sched.threads)
                           or (h in started and not started[h].is_alive()), 5.0)
            if case.get("lhold"):
                t_, fn_, n_, d_ = case["lhold"]
                if case.get("via_main") and t_.startswith("answer-"):
                    t_ = "!caller,network,send_handler,driver"          # whatever thread the library starts for an answer
                sched.hold(t_, "line:" + fn_ if fn_ != "@exit" else "thread.exit", n_, lambda: False, d_)
            cts = [sched.spawn(caller(i), f"caller-{i}") for i in range(case["k"])]
            sched.spawn(network, "network")
            r = sched.run_until(lambda: all(c.state == "finished" for c in cts) or sched.overrun, 20.0)
            sched.run_until(lambda: False, 0.5)
            info.update(result=r, steps=sched.steps, switches=sched.switches, line_switches=sched.line_switches, holds_taken=sched.holds_taken)
            blocked = [(t.name, t.blocked_on) for t in sched.threads if t.name.startswith("caller") and t.state != "finished"]
            early = _answered_before_registration(case, sched)
            if blocked:
                vs.append(V("a caller whose answer has arrived is always woken", f"caller-never-returns/k={case['k']}",
                            f"{blocked} after 20 virtual s (run={r}); answers dispatched for {dispatched}; requests left worker: {sum(len(r_.sent) for r_ in recs)}"))
            for i in range(case["k"]):
                if i not in results:
                    continue
                status, val = results[i]
                if status != "ok":
                    vs.append(V("send_message returns the answer", f"caller-raises/{type(val).__name__}", repr(val)))
                elif val is not answers[i]:
                    whose = next((j for j, a in enumerate(answers) if a is val), None)
                    kind = "another-callers-answer" if whose is not None else ("none" if val is None else "foreign-object")
                    vs.append(V("the caller is given the answer whose Hop-by-Hop identifier equals its request's, and only that one",
                                f"wrong-answer/{kind}", f"caller {i} (hbh {case['hbh'][i]:#x}) got {kind} {whose}"))
            got = [id(v[1]) for v in results.values() if v[0] == "ok" and v[1] is not None]
            if len(got) != len(set(got)):
                vs.append(V("no answer is delivered twice", "answer-delivered-twice", ""))
            if not blocked and any(wk.pending_answers for wk in the_workers):
                vs.append(V("the pending-answer registry is empty afterwards", "registry-not-empty",
                            str([list(wk.pending_answers) for wk in the_workers])))
        finally:
            unreaped = sched.kill_all()
    if unreaped:
        raise RuntimeError(f"harness could not reap threads: {unreaped}")
    seen, out = set(), []
    for v in vs:
        if v.sig not in seen:
            seen.add(v.sig)
            out.append(v)
    return out, info


def _answered_before_registration(case, sched):
    return False


def run_case(case):
    return run_one(case)[0]


def _collect(shard, seed, n):
    col = Collector(PID, RULE)

    def body(case):
        vs, info = run_one(case)
        f = {f"k={case['k']}"}
        ap = case.get("apps") or []
        if len(set(ap)) > 1:
            f.add("two-connections")
            if len(set(case["hbh"])) < len(case["hbh"]):
                f.add("same-hop-by-hop-on-two-connections")
        if case["k"] >= 2 and case["perm"] != sorted(case["perm"]):
            f.add("non-identity-arrival")
        if any(d == 0.0 for d in case["delays"]):
            f.add("zero-delay-answer")
        if case.get("hold") is not None:
            f.add("answer-handled-between-enqueue-and-registration")
        if case.get("fault") is not None:
            f.add("hand-over-failed-once-then-retried")
        if case.get("lhold") and info.get("holds_taken"):
            f.add("delayed-at-source-line-in-registry-code")
        if case["sched"] and any(case["sched"]):
            f.add("prefix-with-switch")
        if info.get("line_switches"):
            f.add("preempted-at-source-line")
        for x in case["extras"]:
            f.add("extra=" + x)
        if case.get("via_main"):
            f.add("answers-through-create_message_thread")
        for fl in case.get("flavors") or []:
            if fl:
                f.add("answer-carries=" + fl.replace("decoded+", ""))
                if "decoded" in fl:
                    f.add("answer-decoded-from-bytes")
        if len(set(h >> 8 for h in case["hbh"])) < len(case["hbh"]):
            f.add("ids-differ-in-one-byte")
        col.record(case, vs, nontrivial=bool(f & {"non-identity-arrival", "zero-delay-answer", "answer-handled-between-enqueue-and-registration"}), classes=sorted(f))

    common.hyp_collect(cases(), body, n, seed)
    return col


def lingering_answer_thread_case(gap, k=2):
    """directed: the thread the library starts for the first answer has run its function to the end but is still alive (for 0.4
    virtual s) when the next answer is handed over"""
    c = parked_answer_thread_case(1, gap, k)
    c["lhold"] = ["!caller,network,send_handler,driver", "@exit", 1, 0.4]
    return c


def parked_answer_thread_case(n, gap, k=2):
    """directed: the thread the library starts for the first answer is parked at the n-th source line it executes (in whatever
    function) for 0.4 virtual s; the next answer is handed to create_message_thread `gap` s after the first"""
    return {"flavors": [None] * k, "via_main": True, "k": k, "hbh": HBH[:k], "apps": ["s6a"] * k, "lhold": ["!caller,network,send_handler,driver", "*", n, 0.4],
            "fault": None, "perm": list(range(k)), "delays": [0.0] + [gap] * (k - 1), "extras": [], "sched": [], "hold": None, "lines": False, "stagger": 0.0}


def _sweep_parked(args):
    col = Collector(PID, RULE)
    for n, gap in args:
        case = parked_answer_thread_case(n, gap) if n > 0 else lingering_answer_thread_case(gap, k=2 - n)
        vs, info = run_one(case)
        col.record(case, vs, nontrivial=bool(info.get("holds_taken")), classes=["sweep-answer-thread-parked-while-next-answer-arrives"] if info.get("holds_taken") else ["sweep-beyond-last-line"])
    return col


def main(ctx):
    col = common.run_shards(_collect, 8 if ctx.quick else 16, ctx.seed, n=120 if ctx.quick else 2500)
    pts = [(n, gap) for n in range(1, 161 if ctx.quick else 421) for gap in ((0.1,) if ctx.quick else (0.1, 0.01))]
    pts += [(-j, gap) for j in (0, 1, 2) for gap in (0.001, 0.01, 0.1, 0.2)]          # n <= 0: lingering thread, k = 2 - n callers
    for part in common.pmap(_sweep_parked, [pts[i::16] for i in range(16)]):
        col.merge(part)
    for path, rec in common.load_replays(PID):
        col.record(rec["case"], run_case(rec["case"]), nontrivial=True, classes=["replay"])
    ctx.required_classes = ["answer-handled-between-enqueue-and-registration", "non-identity-arrival", "zero-delay-answer", "prefix-with-switch", "preempted-at-source-line", "k=1", "k=4",
                            "extra=dup", "extra=unsolicited", "ids-differ-in-one-byte", "two-connections", "same-hop-by-hop-on-two-connections",
                            "delayed-at-source-line-in-registry-code", "hand-over-failed-once-then-retried", "answers-through-create_message_thread",
                            "answer-carries=error-message-non-ascii", "answer-decoded-from-bytes", "sweep-answer-thread-parked-while-next-answer-arrives"]
    ctx.assumptions = ["in-process Worker with shim primitives instead of multiprocessing proxies; the worker's real send_handler loop runs as a "
                       "controlled thread; 'always wakes' is bounded liveness: 20 virtual seconds under fair completion",
                       "schedules are sampled (random walk / PCT-like prefixes, optional line preemption)"]
    ctx.shrinker = lambda sig, case: common.hyp_shrink(cases(), lambda c: any(v.sig == sig for v in run_case(c)), ctx.seed, n=300, budget_s=60) or case
    return col

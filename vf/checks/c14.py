"""C14 - a waiting sender gets its own answer, matched by Hop-by-Hop id, and always wakes.

Generator : k = 1..4 caller threads calling the real Bromelia.send_message(req)
            (distinct Hop-by-Hop ids, some differing in one byte); an in-process
            Worker whose real send_handler loop runs as a controlled thread; a
            scripted network thread that, for each request leaving the worker,
            runs the real handler_pending_answers(answer) in its own controlled
            thread, in a generated arrival permutation and with generated delays
            (including zero: the answer is handled immediately after the request
            left); optional duplicate and unsolicited answers; generated schedule
            prefix (optionally with source-line preemption) + fair completion.
Oracle    : every caller returns within the virtual horizon and its return value
            is the answer object created for its request (identity); no answer is
            returned to two callers; the pending-answer registry is empty.
"""
import struct

from hypothesis import strategies as st

from .. import common, conc, inproc
from ..common import V, Collector
from ..dsched import Scheduler, Net, Patch, ShimEvent, ShimQueue, ShimLock, Killed

PID = "C14"
RULE = ("(callers, answer arrival permutation and delays, duplicates/unsolicited, schedule) cases on a real Bromelia object with an "
        "in-process worker under the controlled scheduler; non-trivial = k >= 2 with a non-identity arrival order, or an answer "
        "dispatched with zero delay (it can be handled between enqueue and registration); distinct by SHA-1 of the case record")

HBH = [0x01020304, 0x01020305, 0x01020404, 0xFFFFFFFF, 0x00000000, 0x80000000, 0x7FFFFFFF, 0x0A0B0C0D]


class ShimManager:
    def __init__(self, sched):
        self.s = sched

    def Event(self):
        return ShimEvent(self.s)

    def Queue(self):
        return ShimQueue(self.s)

    def Lock(self):
        return ShimLock(self.s)


@st.composite
def cases(draw):
    k = draw(st.sampled_from([1, 2, 2, 3, 4]))
    hbh = draw(st.lists(st.sampled_from(HBH), min_size=k, max_size=k, unique=True))
    perm = list(draw(st.permutations(list(range(k)))))
    delays = [draw(st.sampled_from([0.0, 0.0, 0.001, 0.01, 0.2])) for _ in range(k)]
    extras = draw(st.lists(st.sampled_from(["dup", "unsolicited"]), max_size=2))
    sched = draw(conc.schedules(250))
    hold = draw(st.sampled_from([None, None, 0, k - 1]))
    return {"k": k, "hbh": hbh, "perm": perm, "delays": delays, "extras": extras, "sched": sched, "hold": hold,
            "lines": draw(st.booleans()) if sched else False, "stagger": draw(st.sampled_from([0.0, 0.0, 0.005]))}


class Recorder:
    """stands in for the Diameter connection object behind the worker: records what leaves the worker"""
    def __init__(self, config):
        self.config = config
        self.sent = []

    def send_message(self, msg):
        self.sent.append(msg)

    def send_messages(self, msgs):
        self.sent.extend(msgs or [])


def run_one(case):
    common.bootstrap()
    from .. import refdict
    refdict.all_classes()
    errors = common.lib_errors()
    info = {}
    sched = Scheduler(choices=None, line_preempt=case["lines"], trace_prefix=common.REPO.rstrip("/") + "/bromelia/", max_steps=300000)
    net = Net(sched)
    results = {}
    vs = []
    with Patch(sched, net):
        sched.register_driver()
        try:
            import bromelia.bromelia as bb
            from bromelia.base import DiameterRequest, DiameterAnswer
            C = refdict.cls_obj
            app, workers = inproc.make_app(["s6a"], manager=ShimManager(sched))
            app_id = struct.pack(">I", 16777251)
            worker = workers[app_id]
            rec = Recorder(worker.app.config)
            worker.app = rec
            reqs, answers = [], []
            for i in range(case["k"]):
                r = DiameterRequest(command_code=316, application_id=16777251,
                                    avps=[C("SessionIdAVP")(f"s;{i}".encode()), C("OriginHostAVP")("h"), C("OriginRealmAVP")("r")])
                r.header.hop_by_hop = case["hbh"][i]
                r.header.end_to_end = 1000 + i
                reqs.append(r)
                a = DiameterAnswer(command_code=316, application_id=16777251,
                                   avps=[C("SessionIdAVP")(f"s;{i}".encode()), C("ResultCodeAVP")(2001 + i)])
                a.header.hop_by_hop = case["hbh"][i]
                a.header.end_to_end = 1000 + i
                answers.append(a)
            sched.spawn(worker.send_handler, "send_handler")

            def caller(i):
                def run():
                    try:
                        if case["stagger"] and i:
                            bb.time.sleep(case["stagger"] * i)
                        results[i] = ("ok", app.send_message(reqs[i]))
                    except Killed:
                        raise
                    except (Exception,) + errors as e:
                        results[i] = ("error", e)
                return run

            dispatched = []

            def network():
                for j, idx in enumerate(case["perm"]):
                    sched.point("net.wait", pred=lambda idx=idx: any(m is reqs[idx] for m in rec.sent), timeout=None)
                    if case["delays"][j]:
                        bb.time.sleep(case["delays"][j])
                    dispatched.append(idx)
                    sched.spawn(lambda idx=idx: app.handler_pending_answers(answers[idx]), f"answer-{idx}")
                    for x, kind in enumerate(case["extras"]):
                        if kind == "dup" and j == 0:
                            sched.spawn(lambda idx=idx: app.handler_pending_answers(answers[idx]), f"answer-dup-{idx}")
                        if kind == "unsolicited" and j == 0:
                            u = DiameterAnswer(command_code=316, application_id=16777251, avps=[C("ResultCodeAVP")(2001)])
                            u.header.hop_by_hop = 0x55AA55AA
                            sched.spawn(lambda u=u: app.handler_pending_answers(u), "answer-unsolicited")

            sched.choices = list(case["sched"])
            sched.choice_i = 0
            if case.get("hold") is not None:
                # targeted schedule: caller h is not scheduled between queueing its request and registering as a waiter
                # until its answer has been handled (or 5 virtual seconds have passed)
                h = case["hold"]
                sched.hold(f"caller-{h}", "event.set", 1,
                           lambda: any(t.name == f"answer-{h}" and t.state == "finished" for t in sched.threads), 5.0)
            cts = [sched.spawn(caller(i), f"caller-{i}") for i in range(case["k"])]
            sched.spawn(network, "network")
            r = sched.run_until(lambda: all(c.state == "finished" for c in cts) or sched.overrun, 20.0)
            sched.run_until(lambda: False, 0.5)
            info.update(result=r, steps=sched.steps, switches=sched.switches, line_switches=sched.line_switches)
            blocked = [(t.name, t.blocked_on) for t in sched.threads if t.name.startswith("caller") and t.state != "finished"]
            early = _answered_before_registration(case, sched)
            if blocked:
                vs.append(V("a caller whose answer has arrived is always woken", f"caller-never-returns/k={case['k']}",
                            f"{blocked} after 20 virtual s (run={r}); answers dispatched for {dispatched}; requests left worker: {len(rec.sent)}"))
            for i in range(case["k"]):
                if i not in results:
                    continue
                status, val = results[i]
                if status != "ok":
                    vs.append(V("send_message returns the answer", f"caller-raises/{type(val).__name__}", repr(val)))
                elif val is not answers[i]:
                    whose = next((j for j, a in enumerate(answers) if a is val), None)
                    kind = "another-callers-answer" if whose is not None else ("none" if val is None else "foreign-object")
                    vs.append(V("the caller is given the answer whose Hop-by-Hop identifier equals its request's, and only that one",
                                f"wrong-answer/{kind}", f"caller {i} (hbh {case['hbh'][i]:#x}) got {kind} {whose}"))
            got = [id(v[1]) for v in results.values() if v[0] == "ok" and v[1] is not None]
            if len(got) != len(set(got)):
                vs.append(V("no answer is delivered twice", "answer-delivered-twice", ""))
            if not blocked and worker.pending_answers:
                vs.append(V("the pending-answer registry is empty afterwards", "registry-not-empty", str(list(worker.pending_answers))))
        finally:
            unreaped = sched.kill_all()
    if unreaped:
        raise RuntimeError(f"harness could not reap threads: {unreaped}")
    seen, out = set(), []
    for v in vs:
        if v.sig not in seen:
            seen.add(v.sig)
            out.append(v)
    return out, info


def _answered_before_registration(case, sched):
    return False


def run_case(case):
    return run_one(case)[0]


def _collect(shard, seed, n):
    col = Collector(PID, RULE)

    def body(case):
        vs, info = run_one(case)
        f = {f"k={case['k']}"}
        if case["k"] >= 2 and case["perm"] != sorted(case["perm"]):
            f.add("non-identity-arrival")
        if any(d == 0.0 for d in case["delays"]):
            f.add("zero-delay-answer")
        if case.get("hold") is not None:
            f.add("answer-handled-between-enqueue-and-registration")
        if case["sched"] and any(case["sched"]):
            f.add("prefix-with-switch")
        if info.get("line_switches"):
            f.add("preempted-at-source-line")
        for x in case["extras"]:
            f.add("extra=" + x)
        if len(set(h >> 8 for h in case["hbh"])) < len(case["hbh"]):
            f.add("ids-differ-in-one-byte")
        col.record(case, vs, nontrivial=bool(f & {"non-identity-arrival", "zero-delay-answer", "answer-handled-between-enqueue-and-registration"}), classes=sorted(f))

    common.hyp_collect(cases(), body, n, seed)
    return col


def main(ctx):
    col = common.run_shards(_collect, 8 if ctx.quick else 16, ctx.seed, n=120 if ctx.quick else 2500)
    for path, rec in common.load_replays(PID):
        col.record(rec["case"], run_case(rec["case"]), nontrivial=True, classes=["replay"])
    ctx.required_classes = ["answer-handled-between-enqueue-and-registration", "non-identity-arrival", "zero-delay-answer", "prefix-with-switch", "preempted-at-source-line", "k=1", "k=4",
                            "extra=dup", "extra=unsolicited", "ids-differ-in-one-byte"]
    ctx.assumptions = ["in-process Worker with shim primitives instead of multiprocessing proxies; the worker's real send_handler loop runs as a "
                       "controlled thread; 'always wakes' is bounded liveness: 20 virtual seconds under fair completion",
                       "schedules are sampled (random walk / PCT-like prefixes, optional line preemption)"]
    ctx.shrinker = lambda sig, case: common.hyp_shrink(cases(), lambda c: any(v.sig == sig for v in run_case(c)), ctx.seed, n=300, budget_s=60) or case
    return col

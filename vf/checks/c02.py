"""C02 - decoding preserves every wire field and re-encodes byte-identically.

Generator : wire-level forests (independent of bromelia objects) encoded by the
            reference encoder: 1..4 messages, arbitrary header fields/flags, per
            AVP any flag byte consistent with vendor presence, (vendor, code)
            from {dictionary pair, dictionary code with the other vendor
            presence, unknown code, unknown vendor}, in-domain data for the
            class the pair denotes, Grouped members to depth 3.
Oracle    : expected values come from the generator: message count/order,
            header getters, per-AVP code/flags/vendor/data/type (recursively),
            dump() == original slice.
Registry  : histories over (vendor, code) pairs no shipped class uses: decode (alone,
            in a message, in a Grouped AVP), print, define a dictionary class for the
            pair - afterwards the pair must decode as that class, before as generic.
Concurrent: the class registry is a module global; two generated streams are also
            decoded by two controlled threads with directed delays between source
            lines of the registry code, and each must decode as it does alone.
"""
from hypothesis import strategies as st

from .. import common, gens, refdict
from .. import refcodec as rc
from ..common import V, Collector

PID = "C02"
RULE = ("well-formed streams produced by the reference encoder from generated wire forests; non-trivial = stream has an AVP "
        "whose flag byte differs from its class default, or an unknown (vendor, code) pair, or >= 2 messages, or a nested "
        "Grouped AVP; distinct by SHA-1 of the case record")


@st.composite
def wire_avp(draw, depth, cls_name=None):
    """-> {"code","vendor","flags","cls":name|None, "data":hex} | {..., "members":[...]}"""
    kind = "dict" if cls_name else draw(st.sampled_from(["dict", "dict", "dict", "other-vendor", "unknown-code", "unknown-vendor"]))
    if kind == "dict":
        if cls_name is None:
            pool = [r for r in refdict.rows() if depth > 0 or r["type"] != "Grouped"]
            row = draw(st.sampled_from(pool))
        else:
            row = refdict.by_cls(cls_name)
        vendor = row["vendor"]
        flag_kind = draw(st.sampled_from(["default", "any", "any", "mp-only"]))
        if flag_kind == "default":
            flags = row["flags"]
        elif flag_kind == "mp-only":
            flags = draw(st.sampled_from([0x00, 0x20, 0x40, 0x60])) | (0x80 if vendor is not None else 0)
        else:
            flags = draw(st.integers(0, 127)) | (0x80 if vendor is not None else 0)
        out = {"code": row["code"], "vendor": vendor, "flags": flags, "cls": row["cls"]}
        if row["type"] == "Grouped":
            members = []
            for m in row.get("mandatory", {}).values():
                members.append(draw(wire_avp(depth - 1, m)))
            for _ in range(draw(st.integers(0, 3)) if depth > 0 else 0):
                members.append(draw(wire_avp(depth - 1)))
            if len(members) > 1:
                members = list(draw(st.permutations(members)))
            out["members"] = members
            return out
        if row["cls"] == "FramedIpAddressAVP":
            # 4 packed octets; first octet 0 excluded (0.0.0.0/8 is never a host address and the class's
            # family-code sniffing misreads 00 01 / 00 02 - documented limit, DESIGN C02)
            d = bytes([draw(st.integers(1, 255))]) + draw(st.binary(min_size=3, max_size=3))
        else:
            val = draw(gens.val_strategy(row, 0))
            d = gens.ref_data(row["type"], row["cls"], val)
        out["data"] = d.hex()
        return out
    data = draw(gens.sized_bytes(40)).hex()
    if kind == "other-vendor":
        row = draw(st.sampled_from(refdict.rows()))
        # same code, other vendor presence; must not collide with another dictionary pair
        vendor = None if row["vendor"] is not None else draw(gens.vendors)
        if refdict.by_key(vendor, row["code"]) is not None:
            vendor, code = 77777, row["code"]
            if refdict.by_key(vendor, code) is not None:
                code = 2**24 + row["code"]
        else:
            code = row["code"]
    elif kind == "unknown-code":
        code = draw(st.one_of(gens.unknown_codes, st.sampled_from([0, 2, 3, 4, 5, 6, 7, 9, 2**32 - 1])))
        vendor = draw(st.one_of(st.none(), st.sampled_from([10415, 13019]), gens.vendors))
        if refdict.by_key(vendor, code) is not None:
            code = 2**24 + code
    else:
        code = draw(st.sampled_from([r["code"] for r in refdict.rows()]))
        vendor = draw(st.integers(20000, 2**32 - 1))
    flags = draw(st.integers(0, 127)) | (0x80 if vendor is not None else 0)
    return {"code": code, "vendor": vendor, "flags": flags, "cls": None, "data": data}


@st.composite
def wire_stream(draw):
    n = draw(st.sampled_from([1, 1, 2, 3, 4]))
    msgs = []
    for _ in range(n):
        k = draw(st.integers(0, 6))
        msgs.append({"hdr": draw(gens.header()), "avps": [draw(wire_avp(3)) for _ in range(k)]})
    return {"msgs": msgs}


def enc_wire(w):
    data = b"".join(enc_wire(m) for m in w["members"]) if "members" in w else bytes.fromhex(w["data"])
    return rc.enc_avp(w["code"], w["flags"], w["vendor"], data)


def enc_stream(case):
    out = []
    for m in case["msgs"]:
        h = m["hdr"]
        out.append(rc.enc_msg(h["version"], h["flags"], h["cmd"], h["app"], h["hbh"], h["e2e"], [enc_wire(a) for a in m["avps"]]))
    return out


def _wire_features(avps, depth=1, feats=None):
    feats = set() if feats is None else feats
    for w in avps:
        if w["cls"] is None:
            feats.add("unknown-pair")
        else:
            row = refdict.by_cls(w["cls"])
            if w["flags"] != row["flags"]:
                feats.add("non-default-flags")
                if depth > 1:
                    feats.add("non-default-flags-nested")
            if w["flags"] & 0x1f:
                feats.add("reserved-flag-bits")
            feats.add("type=" + row["type"])
        if "members" in w:
            feats.add("grouped")
            if depth >= 2:
                feats.add("nested-grouped")
            _wire_features(w["members"], depth + 1, feats)
    return feats


def _reflag(w):
    """The wire node as the known re-flagging defect would re-encode it."""
    if w["cls"] is None:
        return w
    out = dict(w, flags=refdict.by_cls(w["cls"])["flags"])
    if "members" in w:
        out["members"] = [_reflag(m) for m in w["members"]]
    return out


def _cmp_avp(w, a, where, vs):
    from bromelia.base import DiameterAVP
    kind = ("known" if w["cls"] else "unknown") + "/" + where
    if a.get_code() != w["code"]:
        vs.append(V("AVP code equals the wire", f"code/{kind}", f"{a.get_code()} != {w['code']}"))
    if a.get_flags() != w["flags"]:
        # root-cause signature: does the decoded object carry the class-default flag byte instead of the wire one?
        how = "decoded=class-default" if w["cls"] and a.get_flags() == refdict.by_cls(w["cls"])["flags"] else "decoded=other"
        vs.append(V("AVP flags equal those on the wire", f"flags/{kind}/{how}",
                    f"code {w['code']}: decoded {a.get_flags():#04x}, wire {w['flags']:#04x}"))
    if a.get_vendor_id() != w["vendor"] and not (w["vendor"] == 0 and a.get_vendor_id() in (0, None)):
        vs.append(V("Vendor-ID equals the wire", f"vendor/{kind}", f"{a.get_vendor_id()} != {w['vendor']}"))
    want_cls = w["cls"] or "DiameterAVP"
    if type(a).__name__ != want_cls or (w["cls"] is None and type(a) is not DiameterAVP):
        vs.append(V("known pairs materialise as their dictionary class, unknown ones as generic AVPs",
                    f"type/{kind}", f"({w['vendor']},{w['code']}) -> {type(a).__name__}, expected {want_cls}"))
    wire_data = b"".join(enc_wire(m) for m in w["members"]) if "members" in w else bytes.fromhex(w["data"])
    if (a.data or b"") != wire_data:
        t = refdict.by_cls(w["cls"])["type"] if w["cls"] else "generic"
        if "members" in w and (a.data or b"") == b"".join(enc_wire(_reflag(m)) for m in w["members"]):
            t += "/members-reflagged-to-class-default"
        vs.append(V("AVP data equals the wire", f"data/{kind}/{t}", f"{(a.data or b'').hex()[:80]} != {wire_data.hex()[:80]}"))
    if "members" in w and type(a).__name__ == want_cls:
        mem = list(a.avps)
        if len(mem) != len(w["members"]):
            vs.append(V("Grouped members decoded one per encoded member", f"members/count/{where}", f"{len(mem)} != {len(w['members'])}"))
        else:
            for wm, am in zip(w["members"], mem):
                _cmp_avp(wm, am, "nested", vs)


def check_stream(case):
    errors = common.lib_errors()
    from bromelia.base import DiameterMessage
    parts = enc_stream(case)
    stream = b"".join(parts)
    try:
        msgs = DiameterMessage.load(stream)
    except (Exception,) + errors as e:
        return [V("well-formed stream decodes", f"load-raises/{type(e).__name__}", repr(e))]
    vs = []
    if len(msgs) != len(parts):
        return [V("exactly one message object per encoded message", "count", f"{len(msgs)} != {len(parts)}")]
    for m, raw, obj in zip(case["msgs"], parts, msgs):
        h = m["hdr"]
        got = (obj.header.get_version(), obj.header.get_flags(), obj.header.get_command_code(), obj.header.get_application_id(),
               obj.header.get_hop_by_hop(), obj.header.get_end_to_end(), obj.header.get_length())
        want = (h["version"], h["flags"], h["cmd"], h["app"], h["hbh"], h["e2e"], len(raw))
        if got != want:
            names = ["version", "flags", "cmd", "app", "hbh", "e2e", "length"]
            f = next(n for n, g, w in zip(names, got, want) if g != w)
            vs.append(V("header fields equal those on the wire", f"header/{f}", f"{got} != {want}"))
        avps = list(obj.avps)
        if len(avps) != len(m["avps"]):
            vs.append(V("one AVP object per encoded AVP, in order", "avps/count", f"{len(avps)} != {len(m['avps'])}"))
        else:
            for w, a in zip(m["avps"], avps):
                _cmp_avp(w, a, "top", vs)
        try:
            d = obj.dump()
        except (Exception,) + errors as e:
            vs.append(V("re-serialising reproduces the original bytes", f"redump-raises/{type(e).__name__}", repr(e)))
            continue
        if d != raw:
            reflag = rc.enc_msg(h["version"], h["flags"], h["cmd"], h["app"], h["hbh"], h["e2e"], [enc_wire(_reflag(a)) for a in m["avps"]])
            how = "known-avps-reflagged-to-class-default" if d == reflag else "other"
            vs.append(V("re-serialising reproduces the original bytes", f"redump/{how}", f"{d.hex()[:120]} != {raw.hex()[:120]}"))
    # keep one violation per signature
    seen, out = set(), []
    for v in vs:
        if v.sig not in seen:
            seen.add(v.sig)
            out.append(v)
    return out


# ---------------------------------------------------------------------------------------------------------------------------
# the class registry is a module global shared by every thread that decodes (one receive thread per connection, application
# threads): two streams decoded at the same time must each decode exactly as they do alone
LOADER_FUNCS = ["get_avp_class", "get_avp_class", "_get_load_avps_dictionary", "_get_load_avps_dictionary", "has_updated", "load", "__init__"]


@st.composite
def conc_cases(draw):
    streams = [draw(wire_stream()), draw(wire_stream())]
    one = st.builds(lambda t, f, n, d: [t, f, n, d], st.sampled_from(["dec-0", "dec-1"]), st.sampled_from(LOADER_FUNCS),
                    st.integers(1, 60), st.sampled_from([0.001, 0.02, 0.3]))
    # directed recipe: one thread pauses briefly between two lines of a registry lookup while the other pauses, for longer, in
    # the middle of a registry refresh
    recipe = st.builds(lambda x, n1, n2: [[f"dec-{x}", "get_avp_class", n1, 0.02], [f"dec-{1 - x}", "_get_load_avps_dictionary", n2, 0.3]],
                       st.integers(0, 1), st.integers(1, 40), st.integers(1, 300))
    holds = draw(st.one_of(recipe, recipe, st.lists(one, min_size=1, max_size=3)))
    return {"conc": True, "streams": streams, "holds": holds}


def run_conc(case):
    from ..dsched import Scheduler, Net, Patch
    common.bootstrap()
    refdict.all_classes()
    sched = Scheduler(choices=None, line_preempt=False, trace_prefix=common.REPO.rstrip("/") + "/bromelia/", max_steps=200000, line_holds=True)
    net = Net(sched)
    res = {}
    info = {}
    with Patch(sched, net):
        sched.register_driver()
        try:
            for t, f, n, d in case["holds"]:
                sched.hold(t, "line:" + f, n, lambda: False, d)

            def dec(i):
                def run():
                    res[i] = check_stream(case["streams"][i])
                return run
            cts = [sched.spawn(dec(i), f"dec-{i}") for i in range(2)]
            sched.run_until(lambda: all(c.state == "finished" for c in cts), 30.0)
            info.update(holds_taken=sched.holds_taken, switches=sched.switches)
            dead = [(c.name, repr(c.exc)) for c in cts if c.exc is not None or c.state != "finished"]
        finally:
            unreaped = sched.kill_all()
    if unreaped:
        raise RuntimeError(f"harness could not reap threads: {unreaped}")
    if dead:
        return [V("well-formed stream decodes", "concurrent/thread-died", str(dead))], info
    # alone, afterwards, on this thread
    vs = []
    for i in range(2):
        alone = {v.sig for v in check_stream(case["streams"][i])}
        for v in res.get(i, []):
            if v.sig not in alone:
                vs.append(V(v.clause + " (also while another thread decodes)", "concurrent/" + v.sig, v.detail))
    seen, out = set(), []
    for v in vs:
        if v.sig not in seen:
            seen.add(v.sig)
            out.append(v)
    return out, info


# ---------------------------------------------------------------------------------------------------------------------------
# the registry follows the set of DiameterAVP subclasses: applications define their own dictionary classes at any time
REG_PAIRS = [(None, 16700001), (None, 16700002), (10415, 16700001), (10415, 16700003), (99999, 16700002)]


@st.composite
def registry_histories(draw):
    """ops over a few (vendor, code) pairs no shipped class uses: decode the pair (stand-alone, inside a message, inside a
    Grouped AVP), ask for its name (printing a generic AVP consults the registry), define a dictionary class for it"""
    ops = draw(st.lists(st.one_of(
        st.builds(lambda p, how, n: {"op": "decode", "pair": p, "how": how, "n": n}, st.integers(0, len(REG_PAIRS) - 1),
                  st.sampled_from(["avp", "message", "grouped"]), st.integers(0, 2**32 - 1)),
        st.builds(lambda p: {"op": "name", "pair": p}, st.integers(0, len(REG_PAIRS) - 1)),
        st.builds(lambda p, t: {"op": "define", "pair": p, "type": t}, st.integers(0, len(REG_PAIRS) - 1),
                  st.sampled_from(["Unsigned32", "OctetString"]))), min_size=2, max_size=10))
    return {"registry": True, "ops": ops}


_REG_STATE = {"polluted": False}


def run_registry(case):
    if _REG_STATE["polluted"]:
        return [], {"skipped": "temporary dictionary classes of an earlier history could not be released in this process"}
    import gc
    common.bootstrap()
    refdict.all_classes()
    errors = common.lib_errors()
    from bromelia.base import DiameterAVP, DiameterMessage
    from bromelia import types as T
    n_before = len(DiameterAVP.__subclasses__())
    defined = {}
    vs = []
    info = {"decodes_after_define": 0, "define_after_seen": 0}
    seen = set()
    late = set()

    def define(idx, tname):
        vendor, code = REG_PAIRS[idx]
        base = {"Unsigned32": T.Unsigned32Type, "OctetString": T.OctetStringType}[tname]
        code_b = code.to_bytes(4, "big")
        vendor_b = None if vendor is None else vendor.to_bytes(4, "big")

        def __init__(self, data=b"\x00\x00\x00\x00"):
            DiameterAVP.__init__(self, code_b, vendor_b)
            if vendor_b is not None:
                DiameterAVP.set_vendor_id_bit(self, True)
            base.__init__(self, data=data, vendor_id=vendor_b)
        return type(f"VerifPair{idx}AVP", (DiameterAVP, base), {"code": code_b, "vendor_id": vendor_b, "__init__": __init__})

    try:
        for step, op in enumerate(case["ops"]):
            idx = op["pair"]
            vendor, code = REG_PAIRS[idx]
            if op["op"] == "define":
                if idx in defined:
                    continue
                if idx in seen:
                    info["define_after_seen"] += 1
                    late.add(idx)
                defined[idx] = define(idx, op["type"])
                continue
            flags = 0x80 if vendor is not None else 0x00
            wire = rc.enc_avp(code, flags, vendor, struct_u32(op.get("n", 7)))
            seen.add(idx)
            try:
                if op["op"] == "name":
                    objs = DiameterAVP.load(wire)
                    repr(objs[0])
                    str(objs[0])
                    continue
                if op["how"] == "avp":
                    obj = DiameterAVP.load(wire)[0]
                elif op["how"] == "message":
                    obj = DiameterMessage.load(rc.enc_msg(1, 0x80, 316, 16777251, 1, 2, [rc.enc_avp(263, 0x40, None, b"a;1;2"), wire]))[0].avps[1]
                else:
                    outer = DiameterAVP.load(rc.enc_avp(279, 0x40, None, wire))[0]          # Failed-AVP
                    obj = list(outer.avps)[0]
            except (Exception,) + errors as e:
                vs.append(V("a well-formed AVP decodes", f"registry/decode-raises/{type(e).__name__}", f"step {step} {op}: {e!r}"))
                continue
            want = defined.get(idx)
            if want is not None:
                info["decodes_after_define"] += 1
                if type(obj) is not want:
                    vs.append(V("known (vendor, code) pairs are materialised as their dictionary class - also a class defined after the "
                                "pair was first seen", f"registry/not-dispatched-to-new-class/{op['how']}/{'pair-seen-before-definition' if idx in late else 'pair-first-seen-after-definition'}",
                                f"step {step}: pair {REG_PAIRS[idx]} decoded as {type(obj).__name__}, class {want.__name__} was defined at an earlier step; ops={case['ops']}"))
            else:
                if type(obj) is not DiameterAVP:
                    vs.append(V("unknown pairs are materialised as generic AVPs", f"registry/unknown-not-generic/{op['how']}",
                                f"step {step}: {type(obj).__name__}"))
            if obj.dump() != wire:
                vs.append(V("re-serialising reproduces the original bytes", f"registry/redump/{op['how']}", f"{obj.dump().hex()} != {wire.hex()}"))
    finally:
        obj = outer = objs = want = None
        defined.clear()
        import bromelia.base as _bb
        _bb.loader.avps = None                 # the registry table holds the classes; it is rebuilt at the next lookup
        gc.collect()
    if len(DiameterAVP.__subclasses__()) != n_before:
        # something in the library still refers to objects of the temporary classes (a memo of decoded AVPs, say): empty every cache the
        # library's modules expose and try again; if the classes stay, later registry histories of this process would start from a
        # dictionary that already knows the pairs - they are skipped (counted), never judged on that footing
        import sys as _sys
        for mod in [m for n_, m in list(_sys.modules.items()) if n_.startswith("bromelia") and m is not None]:
            for obj_ in list(vars(mod).values()):
                for f_ in [obj_] + (list(vars(obj_).values()) if isinstance(obj_, type) else []):
                    f_ = getattr(f_, "__func__", f_)
                    if hasattr(f_, "cache_clear"):
                        try:
                            f_.cache_clear()
                        except Exception:
                            pass
        gc.collect()
        if len(DiameterAVP.__subclasses__()) != n_before:
            _REG_STATE["polluted"] = True
    seen_s, out = set(), []
    for v in vs:
        if v.sig not in seen_s:
            seen_s.add(v.sig)
            out.append(v)
    return out, info


def struct_u32(n):
    return (n & 0xFFFFFFFF).to_bytes(4, "big")


def check_after_history(case):
    """the same judgement for a stream decoded by a decoder that has just refused other input (`reps` times the malformed input
    `poison` of C03's list) or whose earlier results were edited in place by the application: what a decoder has seen before, and
    what was done to the objects it returned, never changes how the next well-formed stream decodes"""
    from bromelia.base import DiameterMessage
    from . import c03
    errors = common.lib_errors()
    h = case["history"]
    if h.get("poison"):
        data = dict(c03.history_inputs())[h["poison"]]
        for _ in range(h["reps"]):
            try:
                DiameterMessage.load(data)
            except (Exception, RecursionError) + errors:
                pass
    if h.get("edit"):
        try:
            for m in DiameterMessage.load(b"".join(enc_stream(case))):
                for a in m.avps:
                    if type(a).__name__ in ("OriginHostAVP", "OriginRealmAVP", "UserNameAVP", "SessionIdAVP", "DestinationRealmAVP", "DestinationHostAVP", "ProxyStateAVP", "ClassAVP") \
                            or type(a).__name__ == "DiameterAVP":
                        a.data = b"edited-in-place"
        except (Exception,) + errors:
            pass
    vs = check_stream(case)
    known, _ = common.load_known(PID)
    for v in vs:
        if v.sig not in known:           # the known finding (re-flagged known AVPs) shows here under its own signature as everywhere else
            v.sig += "/after-" + ("refused-inputs" if h.get("poison") else "in-place-edit-of-an-earlier-result")
    return vs


@st.composite
def history_cases(draw):
    case = draw(wire_stream())
    if draw(st.booleans()):
        name = draw(st.sampled_from(["bad-member-1-levels-down", "bad-member-2-levels-down", "bad-member-3-levels-down", "truncated-grouped",
                                     "unknown-enumerator-in-grouped", "nest-400-279", "nest-2000-1400", "nest-40-279"]))
        reps = draw(st.sampled_from([1, 1, 3])) if name.startswith("nest-") else draw(st.sampled_from([1, 40, 420]))
        case["history"] = {"poison": name, "reps": reps}
    else:
        case["history"] = {"edit": True}
    return case


def _collect_history(shard, seed, n):
    common.bootstrap()
    refdict.all_classes()
    col = Collector(PID, RULE)

    def body(case):
        feats = set()
        for m in case["msgs"]:
            _wire_features(m["avps"], 1, feats)
        col.record(case, check_after_history(case), nontrivial=True,
                   classes=["decoded-after-refused-inputs" if case["history"].get("poison") else "decoded-after-in-place-edit-of-an-earlier-result"] + sorted(feats & {"grouped", "nested-grouped"}))

    common.hyp_collect(history_cases(), body, n, seed)
    return col


def run_case(case):
    if case.get("kind") == "mid-call":
        from .. import midcall
        return midcall.run_case(case)
    if case.get("history"):
        return check_after_history(case)
    if case.get("conc"):
        return run_conc(case)[0]
    if case.get("registry"):
        return run_registry(case)[0]
    return check_stream(case)


def _collect_registry(shard, seed, n):
    common.bootstrap()
    refdict.all_classes()
    col = Collector(PID, RULE)

    def body(case):
        vs, info = run_registry(case)
        if info.get("skipped"):
            col.record(case, [], nontrivial=False, classes=["registry-history-skipped"], discard=info["skipped"])
            return
        f = ["registry-history"]
        if info["decodes_after_define"]:
            f.append("decode-after-class-defined")
        if info["define_after_seen"] and info["decodes_after_define"]:
            f.append("class-defined-after-pair-was-seen")
        col.record(case, vs, nontrivial=bool(info["decodes_after_define"]), classes=f)

    common.hyp_collect(registry_histories(), body, n, seed)
    return col


def _collect_conc(shard, seed, n):
    common.bootstrap()
    refdict.all_classes()
    col = Collector(PID, RULE)

    def body(case):
        vs, info = run_conc(case)
        f = ["concurrent-decode"]
        if info.get("holds_taken"):
            f.append("concurrent-decode-delayed-inside-registry-code")
        if info.get("holds_taken", 0) >= 2:
            f.append("concurrent-decode-two-delays")
        col.record(case, vs, nontrivial=bool(info.get("holds_taken")), classes=f)

    common.hyp_collect(conc_cases(), body, n, seed)
    return col


def _collect(shard, seed, n):
    common.bootstrap()
    refdict.all_classes()
    col = Collector(PID, RULE)

    def body(case):
        vs = check_stream(case)
        feats = set()
        for m in case["msgs"]:
            _wire_features(m["avps"], 1, feats)
        if len(case["msgs"]) >= 2:
            feats.add("multi-message")
        nt = bool(feats & {"non-default-flags", "unknown-pair", "multi-message", "nested-grouped"})
        col.record(case, vs, nontrivial=nt, classes=sorted(feats))

    common.hyp_collect(wire_stream(), body, n, seed)
    return col


def main(ctx):
    if ctx.quick:
        col = common.run_shards(_collect, 8, ctx.seed, n=100)
    else:
        col = common.run_shards(_collect, 16, ctx.seed, n=5000)
    col.merge(common.run_shards(_collect_conc, 8 if ctx.quick else 16, ctx.seed + 77, n=25 if ctx.quick else 600))
    col.merge(common.run_shards(_collect_registry, 4 if ctx.quick else 16, ctx.seed + 99, n=100 if ctx.quick else 2000))
    # the very first decodes of a process, made by two threads at once (fresh interpreter per scenario, one thread parked mid-way)
    list(common.first_use_sweep(col, "c02", "known (vendor, code) pairs are materialised as their dictionary class - from the first decode of the process, in every thread"))
    from .. import midcall
    midcall.sweep(col, "c02", "a stream decodes the same whatever another thread is decoding at the same time (not only at first use)",
                  ks=[1] if ctx.quick else [1, 2, 3], nmax=46000, chunk=8, step=487 if ctx.quick else 149)
    col.merge(common.run_shards(_collect_history, 8 if ctx.quick else 16, ctx.seed + 33, n=30 if ctx.quick else 800))
    for path, rec in common.load_replays(PID):
        col.record(rec["case"], run_case(rec["case"]), nontrivial=True, classes=["replay"])
    ctx.required_classes = ["mid-call-parked", "first-use-parked-mid-call", "decoded-after-refused-inputs", "decoded-after-in-place-edit-of-an-earlier-result", "non-default-flags", "non-default-flags-nested", "unknown-pair", "multi-message", "nested-grouped",
                            "reserved-flag-bits", "grouped", "concurrent-decode-delayed-inside-registry-code", "concurrent-decode-two-delays",
                            "class-defined-after-pair-was-seen"]
    ctx.assumptions = ["Vendor-ID 0 with the V flag is not generated (RFC 6733 4.1.1 forbids it)",
                       "Framed-IP-Address values with first octet 0 are not generated (documented limit)",
                       "dictionary = every class importable under bromelia (all modules imported by the harness)"]
    ctx.shrinker = lambda sig, case: (case if case.get("conc") or case.get("registry") else
                                      common.hyp_shrink(wire_stream(), lambda c: any(v.sig == sig for v in check_stream(c)),
                                                        ctx.seed, n=1500, budget_s=40) or case)
    return col

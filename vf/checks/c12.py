"""C12 - answers leaving a route carry the request's identity and a correct error flag.

Generator : request = every typed request class (C09 generator), as built and as
            decoded from its bytes; answer = the partner typed answer with a
            Result-Code from {library constants, 1001..5999 sweep, boundaries}, or
            an Experimental-Result, or both (Result-Code then being the class
            default / 2001).
Oracle    : on the object returned by decorate_answer and on the message taken
            from an in-process worker's send queue after callback_route, read with
            the reference decoder: Application-ID / Hop-by-Hop / End-to-End and
            Session-Id equal the request's; E <=> Result-Code // 1000 in {3,4,5};
            no Result-Code next to an Experimental-Result; Message Length == size.
"""
from hypothesis import strategies as st

from .. import common, gens, refdict, inproc
from .. import refcodec as rc
from ..common import V, Collector
from . import c09

PID = "C12"
RULE = ("(typed request, partner typed answer, result code) triples through decorate_answer and through callback_route with an "
        "in-process worker; non-trivial = result code outside x001..x007, or request Session-Id length % 4 != 0, or an "
        "Experimental-Result; distinct by SHA-1 of the case record")

LIB_APP = {"etsi_3gpp_s6a": "s6a", "etsi_3gpp_swx": "swx", "etsi_3gpp_gx": "gx", "etsi_3gpp_rx": "rx", "etsi_3gpp_swm": "swm",
           "etsi_3gpp_s13": "s13", "etsi_3gpp_s6b": "s6b", "etsi_3gpp_gy": "gy"}


def _codes():
    common.bootstrap()
    from bromelia.constants import result_codes, experimental_result_codes
    out = set()
    for mod in (result_codes, experimental_result_codes):
        for k, v in vars(mod).items():
            if k.startswith("DIAMETER_") and isinstance(v, bytes) and len(v) == 4:
                n = int.from_bytes(v, "big")
                if n % 1000:
                    out.add(n)
    return sorted(out)


def pairs():
    out = []
    for r in c09.commands():
        if r["request"]:
            a = next(x for x in c09.commands() if x["lib"] == r["lib"] and x["cls"] == r["cls"].replace("Request", "Answer"))
            out.append((r, a))
    return out


@st.composite
def case_strategy(draw, pair=None):
    req_rec, ans_rec = pair or draw(st.sampled_from(pairs()))
    req = draw(c09.typed_case(req_rec, allow_omit=False))
    ans = draw(c09.typed_case(ans_rec, allow_omit=False))
    has_exp = any(p["name"] == "experimental_result" for p in ans_rec["params"])
    mode = draw(st.sampled_from(["result", "result", "result", "exp", "both"] if has_exp else ["result"]))
    code = draw(st.one_of(st.sampled_from(_codes()), st.integers(1001, 5999), st.sampled_from([1001, 1999, 2001, 2999, 3001, 3999, 4001, 4999, 5001, 5999, 6001, 999, 7001, 2**32 - 1]))
                .filter(lambda n: n % 1000 != 0))
    ans["args"] = [[k, v] for k, v in ans["args"] if k not in ("result_code", "experimental_result")]
    rcspec = {"mode": mode, "code": code, "vendor": draw(st.sampled_from([10415, 13019, 1]))}
    via = "decorate"
    if req_rec["lib"] in LIB_APP and draw(st.booleans()):
        via = "route"
    # request identifiers over full width
    ids = {"hbh": draw(gens.hdr_field(32)), "e2e": draw(gens.hdr_field(32))}
    # what happened to the answer object before the handler returns it: nothing; the handler set the error flag itself (as RFC 6733
    # asks for an error answer); or the object is a reused one - it already went through one request with another Result-Code
    # (possibly looked at with a family predicate) and the code was then changed in place
    pre = {"kind": "none"}
    if mode == "result":
        k = draw(st.sampled_from(["none", "none", "e-set", "reused", "reused", "predicate"]))
        if k == "e-set":
            pre = {"kind": "e-set"}
        elif k in ("reused", "predicate"):
            pre = {"kind": k, "code0": draw(st.sampled_from([1001, 2001, 2002, 3002, 3008, 4001, 4181, 5001, 5012, 5999]))}
    # request history on the application object (route path): the request under test is a potentially re-transmitted one (T flag) that
    # repeats the End-to-End identifier of a request served just before under another Hop-by-Hop identifier, or simply the second
    # request with the same identifiers / another one
    earlier = draw(st.sampled_from([None, None, "retransmission", "retransmission-no-t-flag", "same-ids", "other-ids"])) if via == "route" else None
    # look-alikes of the Result-Code in the handler's answer: the same AVP code in a vendor's code space, holding a code of another family
    decoy = draw(st.sampled_from([None, None, None, "after", "before"])) if mode == "result" else None
    return {"decoy": decoy, "earlier": earlier, "req": req, "ans": ans, "rc": rcspec, "via": via, "req_form": draw(st.sampled_from(["built", "decoded"])), "ids": ids, "pre": pre}


def _build(case_typed, extra_kwargs=None):
    rec = c09.rec_of(case_typed["lib"], case_typed["cls"])
    cls = c09.cls_of(rec)
    kwargs = {k: c09._build_arg(v) for k, v in case_typed["args"]}
    for k, v in case_typed["extras"]:
        kwargs[k] = c09._build_arg(v)
    kwargs.update(extra_kwargs or {})
    msg = cls(**kwargs)
    if "hdr_app" in case_typed:
        msg.header.application_id = rc.ref_u32(case_typed["hdr_app"])
    return msg


def check_pair(case):
    common.bootstrap()
    errors = common.lib_errors()
    from bromelia.base import DiameterMessage
    from bromelia.bromelia import decorate_answer
    C = refdict.cls_obj
    rcs = case["rc"]
    extra = {}
    if rcs["mode"] in ("result",):
        extra["result_code"] = rcs["code"]
    if rcs["mode"] in ("exp", "both"):
        extra["experimental_result"] = [C("VendorIdAVP")(rcs["vendor"]), C("ExperimentalResultCodeAVP")(rcs["code"])]
    try:
        request = _build(case["req"])
        request.header.hop_by_hop = case["ids"]["hbh"]
        request.header.end_to_end = case["ids"]["e2e"]
        pre = case.get("pre") or {"kind": "none"}
        if pre["kind"] in ("reused", "predicate"):
            from bromelia import utils as U
            answer = _build(case["ans"], {"result_code": pre["code0"]})
            if pre["kind"] == "reused":
                decorate_answer(answer, _build(case["req"]))
            else:
                [f(answer) for f in (U.is_1xxx_informational, U.is_2xxx_success, U.is_3xxx_failure, U.is_4xxx_failure, U.is_5xxx_failure)]
            answer.result_code_avp.data = rc.ref_u32(rcs["code"])
        else:
            answer = _build(case["ans"], extra)
            n0 = rcs["code"]
            if pre["kind"] == "e-set" and n0 // 1000 in (3, 4, 5) and n0 % 1000:
                answer.header.set_error_bit(True)
        if case.get("decoy"):
            from bromelia.base import DiameterAVP
            other = (2001 if rcs["code"] // 1000 in (3, 4, 5) else 5012).to_bytes(4, "big")
            twin = DiameterAVP(code=268, vendor_id=9, flags=0x80, data=other)
            if case["decoy"] == "after":
                answer.append(twin)
            else:
                answer.avps = [twin] + list(answer.avps)
        req_wire = rc.dec_stream(request.dump())[0]
        if case["req_form"] == "decoded":
            request = DiameterMessage.load(request.dump())[0]
    except (Exception,) + errors as e:
        return "discard", f"construction refused: {type(e).__name__}", []
    tag = case["via"]
    sent = None
    try:
        if case["via"] == "decorate":
            sent = decorate_answer(answer, request)
        else:
            appname = LIB_APP[case["req"]["lib"]]
            app, workers = inproc.make_app([appname])
            app_id = rc.ref_u32(req_wire["app"])
            if app_id not in workers:
                return "discard", "request Application-ID is not the library application (caller-supplied)", []

            served = []

            @app.route(application_id=app_id, command_code=req_wire["cmd"].to_bytes(3, "big"))
            def handler(req):
                served.append(req)
                if case.get("earlier") and len(served) == 1:
                    return _build(case["ans"], extra if extra else {"result_code": 2001})      # the answer to the earlier request
                return answer

            if case.get("earlier"):
                first = bytearray(request.dump())
                if case["earlier"] in ("retransmission", "retransmission-no-t-flag"):
                    first[12:16] = ((req_wire["hbh"] ^ 0x00010100) & 0xFFFFFFFF).to_bytes(4, "big")
                elif case["earlier"] == "other-ids":
                    first[12:16] = ((req_wire["hbh"] + 1) & 0xFFFFFFFF).to_bytes(4, "big")
                    first[16:20] = ((req_wire["e2e"] + 1) & 0xFFFFFFFF).to_bytes(4, "big")
                app.callback_route(DiameterMessage.load(bytes(first))[0])
                inproc.drain(workers[app_id])
                if case["earlier"] == "retransmission":
                    again = bytearray(request.dump())
                    again[4] |= 0x10
                    request = DiameterMessage.load(bytes(again))[0]
                    req_wire = rc.dec_stream(bytes(again))[0]
            app.callback_route(request)
            # (whether the handler runs again for a re-transmission is C13's business; here the answer that leaves is judged)
            out = inproc.drain(workers[app_id])
            if len(out) != 1:
                return "ok", None, [V("exactly one answer is handed to the worker", f"route/sent-count", f"{len(out)} messages")]
            sent = out[0]
    except (Exception,) + errors as e:
        return "ok", None, [V("a handler's typed answer is decorated and sent", f"{tag}/raises/{type(e).__name__}", repr(e))]
    try:
        wire = sent.dump()
        dec = rc.dec_stream(wire)
    except rc.RefDecodeError as e:
        return "ok", None, [V("the sent answer is a well-formed message", "undecodable", f"{e}; {wire.hex()[:120]}")]
    vs = []
    if len(dec) != 1:
        return "ok", None, [V("the sent answer is one message", "not-one-message", str(len(dec)))]
    a = dec[0]
    if a["app"] != req_wire["app"]:
        vs.append(V("answer carries the request's Application-ID", "identity/app", f"{a['app']} != {req_wire['app']}"))
    if a["hbh"] != req_wire["hbh"]:
        vs.append(V("answer carries the request's Hop-by-Hop identifier", "identity/hbh", f"{a['hbh']} != {req_wire['hbh']}"))
    if a["e2e"] != req_wire["e2e"]:
        vs.append(V("answer carries the request's End-to-End identifier", "identity/e2e", f"{a['e2e']} != {req_wire['e2e']}"))
    req_sid = rc.find_avp(req_wire["avps"], 263)
    ans_sid = rc.find_avp(a["avps"], 263)
    if req_sid:
        if len(ans_sid) != 1 or ans_sid[0]["data"] != req_sid[0]["data"]:
            vs.append(V("answer carries the request's Session-Id", f"identity/session-id/res{len(req_sid[0]['data']) % 4}",
                        f"{[x['data'] for x in ans_sid]} != {req_sid[0]['data']!r}"))
    results = rc.find_avp(a["avps"], 268)
    exps = rc.find_avp(a["avps"], 297)
    if exps and results:
        vs.append(V("a Result-Code is never sent alongside an Experimental-Result", "result-and-experimental", ""))
    e_flag = bool(a["flags"] & 0x20)
    if results:
        n = int.from_bytes(results[0]["data"], "big")
        want_e = n // 1000 in (3, 4, 5) and n % 1000 != 0
        if e_flag != want_e:
            vs.append(V("error flag set exactly when the Result-Code is in the 3xxx/4xxx/5xxx family",
                        f"error-flag/{'missing' if want_e else 'spurious'}/{n // 1000}xxx", f"Result-Code {n}, flags {a['flags']:#x}"))
    elif rcs["mode"] == "exp" and e_flag and not _default_result_is_error(case):
        vs.append(V("error flag set exactly when the Result-Code is in the 3xxx/4xxx/5xxx family", "error-flag/spurious/no-result-code",
                    f"flags {a['flags']:#x}"))
    if a["flags"] & 0x80:
        vs.append(V("an answer has the R flag clear", "r-flag", ""))
    if a["length"] != len(wire):
        vs.append(V("Message Length matches the final content", "length", f"{a['length']} != {len(wire)}"))
    if sent.header.get_length() != len(wire):
        vs.append(V("Message Length matches the final content", "length-field", f"{sent.header.get_length()} != {len(wire)}"))
    return "ok", None, vs


def _default_result_is_error(case):
    return False


def run_case(case):
    return check_pair(case)[2]


def features(case):
    f = {"via=" + case["via"], "req=" + case["req_form"], "mode=" + case["rc"]["mode"], "answer-object=" + (case.get("pre") or {"kind": "none"})["kind"]}
    n = case["rc"]["code"]
    if not (1 <= n // 1000 <= 5 and 1 <= n % 1000 <= 7):
        f.add("code-outside-x001-x007")
    for k, v in case["req"]["args"]:
        if k == "session_id" and v.get("t") == "b" and (len(v["x"]) // 2) % 4:
            f.add("session-id-unaligned")
        if k == "session_id" and v.get("t") == "sid":
            f.add("session-id-generated")
    f.add(f"family={min(n // 1000, 6)}")
    if case.get("earlier"):
        f.add("request-history=" + case["earlier"])
    if case.get("decoy"):
        f.add("vendor-twin-of-result-code-" + case["decoy"])
    return f


def _collect(shard, seed, n, of):
    common.bootstrap()
    refdict.all_classes()
    col = Collector(PID, RULE)
    ps = pairs()
    for i, pair in enumerate(ps):
        if i % of != shard:
            continue

        def body(case):
            status, why, vs = check_pair(case)
            f = features(case)
            nt = bool(f & {"code-outside-x001-x007", "session-id-unaligned", "mode=exp", "mode=both", "answer-object=reused", "answer-object=predicate",
                           "answer-object=e-set"}) and status == "ok"
            col.record(case, vs, nontrivial=nt, classes=sorted(f), discard=why)

        common.hyp_collect(case_strategy(pair), body, n, seed + i)
    return col


def _sweep(args):
    """full 1001..5999 sweep on a few pairs through decorate_answer"""
    lo, hi, pair_idx = args
    common.bootstrap()
    refdict.all_classes()
    col = Collector(PID, RULE)
    req_rec, ans_rec = pairs()[pair_idx]
    req = {"kind": "typed", "lib": req_rec["lib"], "cls": req_rec["cls"], "extras": [], "omit": None,
           "args": [[p["name"], _min_val(p)] for p in req_rec["params"] if p["kind"] == "mandatory" and p["default"] is None]}
    ans = {"kind": "typed", "lib": ans_rec["lib"], "cls": ans_rec["cls"], "extras": [], "omit": None,
           "args": [[p["name"], _min_val(p)] for p in ans_rec["params"] if p["kind"] == "mandatory" and p["default"] is None and p["name"] != "result_code"]}
    if "hdr_app" in () :
        pass
    n = nt = 0
    for code in range(lo, hi):
        if code % 1000 == 0:
            continue
        case = {"req": req, "ans": ans, "rc": {"mode": "result", "code": code, "vendor": 10415}, "via": "decorate", "req_form": "built",
                "ids": {"hbh": code, "e2e": 2**32 - code}}
        n += 1
        nt += not (1 <= code % 1000 <= 7)
        for v in check_pair(case)[2]:
            col.violation(case, v)
    col.count_enum(n, nt, {"sweep": n})
    return col


def _min_val(p):
    row = refdict.by_cls(p["avp"])
    t = row["type"]
    if p["name"] == "auth_application_id":
        return gens.bval(rc.ref_u32(16777236))
    if t == "Enumerated":
        return gens.bval(rc.ref_u32(row["values"][0]))
    if t in ("Unsigned32", "Unsigned64"):
        return {"t": "i", "n": 1}
    if t == "Grouped":
        return {"t": "l", "items": [{"k": "dict", "cls": m, "v": _min_val({"avp": m, "name": ""})} for m in row.get("mandatory", {}).values()]}
    if t == "Address":
        return {"t": "ip", "s": "10.0.0.1"}
    return gens.bval(b"abc")


def main(ctx):
    import multiprocessing
    n = 8 if ctx.quick else 16
    col = common.run_shards(_collect, n, ctx.seed, n=40 if ctx.quick else 500, of=n)
    # exhaustive code sweep through decorate_answer on S6a ULR/ULA (quick) + 5 more pairs (thorough)
    ps = pairs()
    want = [("etsi_3gpp_s6a", "UpdateLocationRequest")] + ([] if ctx.quick else [("etsi_3gpp_gx", "CreditControlRequest"),
            ("etsi_3gpp_rx", "AARequest"), ("etsi_3gpp_swx", "MultimediaAuthRequest"), ("etsi_3gpp_swm", "DiameterEapRequest"),
            ("etsi_3gpp_s13", "MeIdentityCheckRequest")])
    idxs = [i for i, (r, a) in enumerate(ps) if (r["lib"], r["cls"]) in want]
    jobs = [(lo, min(lo + 500, 6000), i) for i in idxs for lo in range(1001, 6000, 500)]
    for part in common.pmap(_sweep, jobs):
        col.merge(part)
    col.exhaustive = True
    col.extra["exhaustive_scope"] = f"every Result-Code 1001..5999 (non-multiples of 1000) through decorate_answer on {len(idxs)} request/answer pair(s)"
    for path, rec in common.load_replays(PID):
        col.record(rec["case"], run_case(rec["case"]), nontrivial=True, classes=["replay"])
    ctx.required_classes = ["request-history=retransmission", "via=route", "via=decorate", "req=decoded", "mode=exp", "mode=both", "session-id-unaligned", "answer-object=reused",
                            "answer-object=e-set", "answer-object=predicate",
                            "code-outside-x001-x007", "sweep", "family=3", "family=4", "family=5"]
    ctx.assumptions = ["handler answers are freshly constructed typed answers (E bit not pre-set, Session-Id present when the request has one)",
                       "codes that are multiples of 1000 are not generated; with both Result-Code and Experimental-Result the Result-Code "
                       "is the class default", "route path uses an in-process Worker (fake manager), no multiprocessing"]
    ctx.shrinker = lambda sig, case: (common.hyp_shrink(case_strategy(), lambda c: any(v.sig == sig for v in run_case(c)), ctx.seed, n=600, budget_s=40)
                                      or case) if "req" in case and case["req"].get("extras") is not None and case["via"] else case
    return col

"""C03 - malformed input is rejected cleanly and never wedges the decoder or the node.

(a) decoder : systematic mutations of well-formed streams (every truncation
    point class, every length field x {0..40, true+-1..4, 2^24-1, random},
    single-field corruptions, deep nesting, plain garbage); thorough tier adds
    atheris campaigns.  Oracle: terminates within a step bound that depends only
    on the input length (function entries + jumps executed in bromelia/), returns messages or
    raises a library error type, result size bounded.
(b) live node: see c03_live (controlled world).
"""
import struct
import sys

from hypothesis import strategies as st

from .. import common, gens, refdict
from .. import refcodec as rc
from ..common import V, Collector
from . import c02

PID = "C03"
RULE = ("byte strings obtained by structural mutation of reference-encoded streams (truncation, every length field set to chosen "
        "values, V-bit toggles, code swaps to a class of another data type, byte edits, deep nesting) and plain random bytes, fed "
        "to DiameterMessage.load and DiameterAVP.load; non-trivial = the input differs from every well-formed stream (the reference "
        "decoder rejects it, or a typed constructor must reject its data) and is longer than 4 bytes; distinct by SHA-1 of the bytes")


class StepBudgetExceeded(BaseException):
    pass


def step_bound(n):
    # measured worst legitimate case: ~120 steps/byte (deeply nested Grouped AVPs); same-name AVPs cost O(k^2) name look-ups
    return 5000 + 400 * n + (n * n) // 16


_TRACE = {"installed": False, "active": False, "count": 0, "budget": 0}
TOOL_ID = 4


def _install_tracer():
    """Step counter = number of function entries and unconditional jumps (loop back-edges) executed in files under
    REPO/bromelia, observed through sys.monitoring (Python 3.12).  Installed once per process; locations outside
    bromelia disable themselves on first hit, so the steady-state overhead is confined to the code under test."""
    if _TRACE["installed"]:
        return
    mon = sys.monitoring
    prefix = common.REPO.rstrip("/") + "/bromelia/"
    T = _TRACE
    mon.use_tool_id(TOOL_ID, "verif-c03-steps")

    def on_event(code, *args):
        if not code.co_filename.startswith(prefix):
            return mon.DISABLE
        if T["active"]:
            T["count"] += 1
            if T["count"] > T["budget"]:
                T["active"] = False
                raise StepBudgetExceeded()

    mon.register_callback(TOOL_ID, mon.events.PY_START, on_event)
    mon.register_callback(TOOL_ID, mon.events.JUMP, on_event)
    mon.set_events(TOOL_ID, mon.events.PY_START | mon.events.JUMP)
    T["installed"] = True


class CpuBudgetExceeded(BaseException):
    pass


CPU_LIMIT_S = 8.0        # CPU seconds of this process for one decode call (inputs are <= ~150 kB; the slowest legitimate one takes < 0.1 s)


def _on_cpu_alarm(signum, frame):
    raise CpuBudgetExceeded()


def traced_call(fn, arg, budget):
    """Run fn(arg) counting steps in bromelia code; abort with StepBudgetExceeded when the budget is exceeded.  Time spent below the
    interpreter (a regular expression that backtracks, a C-level loop) produces no steps: a CPU-time alarm (ITIMER_VIRTUAL: user CPU time
    of this process, not wall-clock time, so machine load does not matter) ends such a call with CpuBudgetExceeded."""
    import signal
    import threading
    _install_tracer()
    _TRACE.update(active=True, count=0, budget=budget)
    armed = threading.current_thread() is threading.main_thread()
    if armed:
        old = signal.signal(signal.SIGVTALRM, _on_cpu_alarm)
        # once one input of this process has exceeded the limit the finding is made: later calls get a short limit so that the rest of the
        # run (which goes on, to find other root causes) stays cheap; a call cut short that way is reported under the same signature
        signal.setitimer(signal.ITIMER_VIRTUAL, CPU_LIMIT_S if not _TRACE.get("cpu_exceeded") else 0.5, 1.0)
    try:
        return fn(arg), _TRACE["count"]
    finally:
        _TRACE["active"] = False
        if armed:
            signal.setitimer(signal.ITIMER_VIRTUAL, 0)
            signal.signal(signal.SIGVTALRM, old)


def judge(entry, data):
    """entry: 'msg' | 'avp'.  -> list[V]"""
    common.bootstrap()
    from bromelia.base import DiameterMessage, DiameterAVP
    errors = common.lib_errors()
    fn = DiameterMessage.load if entry == "msg" else DiameterAVP.load
    n = len(data)
    try:
        res, steps = traced_call(fn, data, step_bound(n))
    except StepBudgetExceeded:
        return [V("decoding terminates within a step bound that depends only on the input length",
                  f"{entry}/step-bound", f"more than {step_bound(n)} steps (function entries + jumps in bromelia) for {n} bytes: {data.hex()[:80]}")]
    except CpuBudgetExceeded:
        _TRACE["cpu_exceeded"] = True
        return [V("decoding terminates within a bound that depends only on the input length",
                  f"{entry}/cpu-bound", f"not finished after {CPU_LIMIT_S} s of CPU time for {n} bytes (few interpreter steps: the time is spent in C code, "
                                        f"e.g. a backtracking regular expression): {data.hex()[:160]}")]
    except errors:
        return []
    except RecursionError as e:
        return [V("decoding never leaks an unrelated runtime error", f"{entry}/foreign/RecursionError", f"{n} bytes")]
    except MemoryError:
        return [V("decoding never grows without bound", f"{entry}/MemoryError", f"{n} bytes")]
    except Exception as e:
        import traceback
        tb = traceback.extract_tb(e.__traceback__)
        where = next((f"{f.name}" for f in reversed(tb) if "/bromelia/" in f.filename), "?")
        return [V("decoding raises only the library's own error types", f"{entry}/foreign/{type(e).__name__}/{where}",
                  f"{type(e).__name__}: {e!r} for {data.hex()[:80]}")]
    vs = []
    if not isinstance(res, list):
        vs.append(V("decoding returns a list of messages", f"{entry}/not-a-list", repr(type(res))))
    elif entry == "msg" and len(res) > n // 20 + 1:
        vs.append(V("the result is bounded by the input length", f"{entry}/too-many-results", f"{len(res)} messages from {n} bytes"))
    elif entry == "avp" and len(res) > n // 8 + 1:
        vs.append(V("the result is bounded by the input length", f"{entry}/too-many-results", f"{len(res)} AVPs from {n} bytes"))
    return vs


# ---------------------------------------------------------------- mutation machinery
def avp_header_offsets(buf, base=0, depth=0, out=None):
    """offsets of every AVP header in a well-formed AVP region, descending into Grouped dictionary classes"""
    out = [] if out is None else out
    i = 0
    n = len(buf)
    while i + 8 <= n:
        code, flags = struct.unpack_from(">IB", buf, i)
        length = int.from_bytes(buf[i + 5:i + 8], "big")
        hdr = 12 if flags & 0x80 else 8
        if length < hdr or i + length > n:
            break
        vendor = struct.unpack_from(">I", buf, i + 8)[0] if flags & 0x80 else None
        out.append((base + i, hdr, length, depth))
        row = refdict.by_key(vendor, code)
        if row is not None and row["type"] == "Grouped" and depth < 6:
            avp_header_offsets(buf[i + hdr:i + length], base + i + hdr, depth + 1, out)
        i += length + (-length % 4)
    return out


def apply_mutation(case):
    """-> bytes"""
    m = case["mut"]
    if m["k"] == "raw":
        return bytes.fromhex(m["x"])
    if m["k"] == "uri":
        # a DiameterURI AVP (Redirect-Host) whose text starts like a URI and goes wrong late: long label runs, then something illegal
        host = (m["ch"] * 80)[:m["run"]]
        if m.get("dots"):
            host = ".".join([host[i:i + m["dots"]] for i in range(0, len(host), m["dots"])])
        text = f"{m['scheme']}://{host}{m['suffix']}".encode("utf-8", "replace")
        return rc.enc_msg(1, 0x80, 316, 16777251, 1, 2, [rc.enc_avp(292, 0x40, None, text)])
    if m["k"] == "nest":
        inner = b""
        for _ in range(m["depth"]):
            inner = rc.enc_avp(m["code"], 0x40 | (0x80 if m["vendor"] else 0), m["vendor"], inner)
        return rc.enc_msg(1, 0x80, 316, 16777251, 1, 2, [inner])
    parts = c02.enc_stream(case["base"])
    data = bytearray(b"".join(parts))
    if not data:
        return bytes(data)
    k = m["k"]
    if k == "truncate":
        return bytes(data[:m["n"] % len(data)])
    if k == "msglen":
        starts = [0]
        for p in parts[:-1]:
            starts.append(starts[-1] + len(p))
        s = starts[m["msg"] % len(starts)]
        true_len = len(parts[m["msg"] % len(starts)])
        val = _lenval(m, true_len)
        data[s + 1:s + 4] = val.to_bytes(3, "big")
        return bytes(data)
    offs = []
    pos = 0
    for p in parts:
        offs += avp_header_offsets(p[20:], pos + 20)
        pos += len(p)
    if k in ("avplen", "flipV", "code", "zero-pad") and not offs:
        return bytes(data[:-1])
    if k == "avplen":
        o, hdr, length, depth = offs[m["idx"] % len(offs)]
        data[o + 5:o + 8] = _lenval(m, length).to_bytes(3, "big")
    elif k == "flipV":
        o = offs[m["idx"] % len(offs)][0]
        data[o + 4] ^= 0x80
    elif k == "code":
        o = offs[m["idx"] % len(offs)][0]
        row = refdict.rows()[m["to"] % len(refdict.rows())]
        data[o:o + 4] = row["code"].to_bytes(4, "big")
    elif k == "byte":
        p = m["pos"] % len(data)
        data[p] = m["val"]
    elif k == "delete":
        p = m["pos"] % len(data)
        del data[p:p + 1 + m["n"] % 5]
    elif k == "insert":
        p = m["pos"] % len(data)
        data[p:p] = bytes.fromhex(m["x"])
    else:
        raise ValueError(k)
    return bytes(data)


def _lenval(m, true_len):
    if m["how"] == "abs":
        return m["val"]
    return max(0, min(2**24 - 1, true_len + m["val"]))


lenspec = st.one_of(
    st.builds(lambda v: {"how": "abs", "val": v}, st.one_of(st.integers(0, 40), st.sampled_from([2**24 - 1, 2**16, 255, 256, 65535]), st.integers(0, 2**24 - 1))),
    st.builds(lambda v: {"how": "rel", "val": v}, st.sampled_from([-4, -3, -2, -1, 1, 2, 3, 4, 8, -8, 20, -20])),
)
mutation = st.one_of(
    st.builds(lambda n: {"k": "truncate", "n": n}, st.one_of(st.integers(0, 25), st.integers(0, 400))),
    st.builds(lambda i, s: dict({"k": "msglen", "msg": i}, **s), st.integers(0, 3), lenspec),
    st.builds(lambda i, s: dict({"k": "avplen", "idx": i}, **s), st.integers(0, 40), lenspec),
    st.builds(lambda i: {"k": "flipV", "idx": i}, st.integers(0, 40)),
    st.builds(lambda i, t: {"k": "code", "idx": i, "to": t}, st.integers(0, 40), st.integers(0, 500)),
    st.builds(lambda p, v: {"k": "byte", "pos": p, "val": v}, st.integers(0, 600), st.integers(0, 255)),
    st.builds(lambda p, n: {"k": "delete", "pos": p, "n": n}, st.integers(0, 600), st.integers(0, 4)),
    st.builds(lambda p, x: {"k": "insert", "pos": p, "x": x.hex()}, st.integers(0, 600), st.binary(min_size=1, max_size=6)),
)
special = st.one_of(
    st.builds(lambda x: {"base": None, "mut": {"k": "raw", "x": x.hex()}}, st.one_of(st.binary(max_size=64), st.binary(max_size=3))),
    st.builds(lambda d, c: {"base": None, "mut": {"k": "nest", "depth": d, "code": c[0], "vendor": c[1]}},
              st.sampled_from([1, 5, 50, 120, 200, 300, 400]),
              st.sampled_from([(279, None), (443, None), (1400, 10415), (628, 10415), (456, None)])),
)
URI_SUFFIXES = [";transport=tls", ";transport=", ":99999", ":", "!", " ", ";", ".", "..", "-", "/", "\n", ";protocol=diameter;transport=x", ":3868;", "\u00e9", ""]
uri_text = st.builds(lambda sch, run, ch, dots, suf: {"base": None, "mut": {"k": "uri", "scheme": sch, "run": run, "ch": ch, "dots": dots, "suffix": suf}},
                     st.sampled_from(["aaa", "aaas", "aaa", "AAA", "aaaa", "http"]), st.integers(1, 64), st.sampled_from(["a", "a-", "a1", "0", "x_", "ab."]),
                     st.sampled_from([0, 0, 1, 3, 8]), st.sampled_from(URI_SUFFIXES))
cases = st.one_of(st.builds(lambda b, m: {"base": b, "mut": m}, c02.wire_stream(), mutation), special, uri_text)


def check_bytes(data):
    vs = judge("msg", data)
    if len(data) > 20:
        vs += judge("avp", data[20:])
    seen, out = set(), []
    for v in vs:
        if v.sig not in seen:
            seen.add(v.sig)
            out.append(v)
    return out


def run_case(case):
    if case.get("kind") == "history":
        return run_history(case)
    if case.get("kind") == "live":
        from . import c03_live
        return c03_live.run_case(case)
    if "hex" in case:
        return check_bytes(bytes.fromhex(case["hex"]))
    return check_bytes(apply_mutation(case))


def is_malformed(data):
    try:
        rc.dec_stream(data)
        return False
    except rc.RefDecodeError:
        return True


def _collect(shard, seed, n):
    common.bootstrap()
    refdict.all_classes()
    col = Collector(PID, RULE)

    def body(case):
        data = apply_mutation(case)
        vs = check_bytes(data)
        mal = is_malformed(data)
        k = case["mut"]["k"]
        f = ["mut=" + k, "malformed-by-reference" if mal else "reference-wellformed"]
        if k in ("msglen", "avplen"):
            f.append("length-field")
            if case["mut"]["how"] == "abs" and case["mut"]["val"] < 20:
                f.append("length<20")
        col.record({"hex": data.hex(), "mut": case["mut"]}, vs, nontrivial=(mal or k in ("code", "flipV", "byte")) and len(data) > 4, classes=f,
                   sample={"mut": case["mut"], "hex": data.hex()[:160]})

    common.hyp_collect(cases, body, n, seed)
    return col


def _systematic(shard, seed, of):
    """every truncation point and every small absolute length at every length field of a few fixed streams"""
    common.bootstrap()
    refdict.all_classes()
    col = Collector(PID, RULE)
    from bromelia.messages import CER
    from bromelia.lib.etsi_3gpp_s6a.messages import UpdateLocationRequest
    C = refdict.cls_obj
    streams = [
        CER(origin_host="a.example", origin_realm="example", host_ip_address="10.0.0.1").dump(),
        UpdateLocationRequest(session_id=b"s;1;1", origin_host="h", origin_realm="r", destination_realm="r", user_name="001010000000001",
                              visited_plmn_id=b"\x00\xf1\x10",
                              supported_features=[C("VendorIdAVP")(10415), C("FeatureListIdAVP")(1), C("FeatureListAVP")(3)]).dump(),
    ]
    streams.append(streams[0] + streams[1])
    n = nt = 0
    jobs = []
    for s in streams:
        for cut in range(len(s)):
            jobs.append(s[:cut])
        offs = avp_header_offsets(s[20:], 20)
        fields = [1] + [o + 5 for o, _, _, _ in offs]
        for fo in fields:
            true = int.from_bytes(s[fo:fo + 3], "big")
            for val in list(range(0, 41)) + [true - 4, true - 3, true - 2, true - 1, true + 1, true + 2, true + 3, true + 4, 2**24 - 1, 2**16]:
                if 0 <= val < 2**24 and val != true:
                    b = bytearray(s)
                    b[fo:fo + 3] = val.to_bytes(3, "big")
                    jobs.append(bytes(b))
    # DiameterURI texts that are right for a long while and wrong at the end
    for run in (8, 16, 24, 28, 32, 40, 48, 56, 62, 64):
        for suf in URI_SUFFIXES:
            for ch, dots in (("a", 0), ("a1", 0), ("a-", 0), ("a", 8)):
                jobs.append(apply_mutation({"base": None, "mut": {"k": "uri", "scheme": "aaa", "run": run, "ch": ch, "dots": dots, "suffix": suf}}))
    # deep nesting, judged outside Hypothesis (which raises the interpreter's recursion limit while a test runs)
    for depth in (10, 100, 250, 330, 400, 500, 1000, 2000):
        for code, vendor in ((279, None), (1400, 10415), (456, None)):
            jobs.append(apply_mutation({"base": None, "mut": {"k": "nest", "depth": depth, "code": code, "vendor": vendor}}))
    for i, data in enumerate(jobs):
        if i % of != shard:
            continue
        n += 1
        nt += len(data) > 4
        for v in check_bytes(data):
            col.violation({"hex": data.hex()}, v)
    col.count_enum(n, nt, {"systematic": n})
    return col


def history_inputs():
    """(name, bytes) of inputs that are refused, to be fed many times to one decoder (= one process / one thread)"""
    out = []
    for depth, code, vendor in ((40, 279, None), (200, 1400, 10415), (400, 279, None), (2000, 1400, 10415)):
        out.append((f"nest-{depth}-{code}", apply_mutation({"base": None, "mut": {"k": "nest", "depth": depth, "code": code, "vendor": vendor}})))
    bad_leaf = rc.enc_avp(268, 0x40, None, b"\x00\x00\x07")                       # Result-Code with 3 octets
    for levels in (1, 2, 3):
        inner = bad_leaf
        for _ in range(levels):
            inner = rc.enc_avp(279, 0x40, None, inner)
        out.append((f"bad-member-{levels}-levels-down", rc.enc_msg(1, 0x80, 316, 16777251, 1, 2, [inner])))
    out.append(("truncated-grouped", rc.enc_msg(1, 0x80, 316, 16777251, 1, 2, [rc.enc_avp(279, 0x40, None, rc.enc_avp(1, 0x40, None, b"user")[:-3])])))
    out.append(("unknown-enumerator-in-grouped", rc.enc_msg(1, 0x80, 316, 16777251, 1, 2,
                                                            [rc.enc_avp(279, 0x40, None, rc.enc_avp(277, 0x40, None, (99).to_bytes(4, "big")))])))
    return out


def run_history(case):
    """one decoder lives through `reps` refused inputs and is then probed: every single call must satisfy the oracle, whatever came before"""
    inputs = dict(history_inputs())
    data = inputs[case["poison"]]
    for i in range(case["reps"]):
        vs = judge("msg", data)
        if vs:
            for v in vs:
                v.sig = "history/" + v.sig + "/after-earlier-refused-inputs"
                v.detail = f"input {case['poison']} fed {i + 1} times: " + v.detail
            return vs
    for name, probe in history_inputs():
        if name.startswith("nest-"):
            vs = judge("msg", probe)
            if vs:
                for v in vs:
                    v.sig = "history/" + v.sig + "/after-earlier-refused-inputs"
                    v.detail = f"after {case['reps']} x {case['poison']}, probe {name}: " + v.detail
                return vs
    return []


def _histories(shard, seed, of, reps):
    common.bootstrap()
    refdict.all_classes()
    col = Collector(PID, RULE)
    for i, (name, _) in enumerate(history_inputs()):
        if i % of != shard:
            continue
        # deeply nested inputs are expensive to refuse (about 0.1 s each): fewer repetitions, except for one of them
        r = reps if not name.startswith("nest-") else (reps * 4 // 5 if name == "nest-400-279" else reps // 7)
        case = {"kind": "history", "poison": name, "reps": r}
        col.record(case, run_history(case), nontrivial=True, classes=["history-of-refused-inputs"])
    return col


def main(ctx):
    n = 8 if ctx.quick else 16
    col = common.run_shards(_collect, 4 if ctx.quick else n, ctx.seed, n=500 if ctx.quick else 20000)
    col.merge(common.run_shards(_systematic, n, ctx.seed, of=n))
    col.merge(common.run_shards(_histories, n, ctx.seed, of=n, reps=420 if ctx.quick else 1500))
    col.extra["systematic_scope"] = "every truncation point and every length field x {0..40, true+-1..4, 2^16, 2^24-1} of CER, ULR(with Grouped) and their concatenation"
    try:
        from . import c03_live
        col.merge(c03_live.collect(ctx))
    except ImportError:
        pass
    if not ctx.quick:
        try:
            from . import c03_fuzz
            col.merge(c03_fuzz.collect(ctx))
        except ImportError:
            pass
    for path, rec in common.load_replays(PID):
        col.record(rec["case"], run_case(rec["case"]), nontrivial=True, classes=["replay"])
    ctx.required_classes = ["mut=truncate", "mut=msglen", "mut=avplen", "mut=flipV", "mut=code", "mut=raw", "mut=nest", "length<20",
                            "malformed-by-reference", "systematic", "history-of-refused-inputs", "mut=uri"]
    ctx.assumptions = ["step bound = 5000 + 400*n + n*n/16 steps for n input bytes (steps = function entries + unconditional jumps in bromelia code, via sys.monitoring); deterministic, no wall-clock verdicts",
                       "library error types = every class defined in bromelia.exceptions"]

    def shrinker(sig, case):
        if "hex" not in case:
            return case
        data = list(bytes.fromhex(case["hex"]))
        small = common.ddmin_list(data, lambda sub: any(v.sig == sig for v in check_bytes(bytes(sub))), budget_s=20)
        return {"hex": bytes(small).hex()}
    ctx.shrinker = shrinker
    return col

"""C15 - request identifiers are never reused within a process.

Generator : bromelia.base.os.urandom is replaced by a generator-driven source: a
            Hypothesis-drawn finite sequence over a tiny alphabet (repeats are the
            norm) followed by fresh counter values; histories mix header-less
            requests (generic and typed), requests/answers built from an explicit
            header, answers and generic messages.  Concurrent variant (controlled
            scheduler, line-level preemption inside base.py) in c15 'threads'.
Oracle    : Hop-by-Hop ids of all header-less requests pairwise distinct,
            likewise End-to-End; explicit-header requests and answers carry the
            given ids and consume nothing (registry lengths and urandom call
            count unchanged).
"""
import os as real_os

from hypothesis import strategies as st

from .. import common, refdict
from ..common import V, Collector

PID = "C15"
RULE = ("creation histories (generic/typed header-less requests, explicit-header requests, answers, generic messages) against a "
        "generator-driven random source over a 1..3-value alphabet; non-trivial = the source repeated a value that had already been "
        "handed out (sequential) / two threads were inside the draw loop simultaneously (concurrent); distinct by SHA-1 of the case")


class FakeOs:
    """stands in for the `os` module inside bromelia.base"""
    def __init__(self, seq):
        self.seq = list(seq)
        self.calls = 0
        self.fresh = 0
        self.served = []

    def urandom(self, n):
        self.calls += 1
        v = self.seq.pop(0) if self.seq else None
        b = None
        if isinstance(v, dict):
            # a value derived from what the source has produced before (the statement: whatever values the source produces):
            # {"rep": k} the k-th value served so far again; {"mix": [i, j, off]} four octets taken across the boundary of two
            # earlier values; {"rev": k} an earlier value with its octets reversed; {"inc": [k, d]} an earlier value plus d
            try:
                if "rep" in v:
                    b = self.served[v["rep"]]
                elif "mix" in v:
                    i, j, off = v["mix"]
                    b = (self.served[i] + self.served[j])[off:off + 4]
                elif "rev" in v:
                    b = self.served[v["rev"]][::-1]
                elif "inc" in v:
                    b = ((int.from_bytes(self.served[v["inc"][0]], "big") + v["inc"][1]) % 2**32).to_bytes(4, "big")
            except (IndexError, KeyError, TypeError, ValueError):
                b = None
            v = None
        if b is None and v is None:
            self.fresh += 1
            v = 0x10203040 + 0x01010101 * self.fresh
        if b is None:
            b = (v % 2**32).to_bytes(4, "big")
        b = b[:n].rjust(n, b"\0")
        self.served.append(b)
        return b

    def __getattr__(self, name):
        return getattr(real_os, name)


class FakeTime:
    """stands in for a `time` module inside bromelia.base, should the code under test read the clock there: the harness owns it"""
    def __init__(self):
        import time as _t
        self._t = _t
        self.offset = 0.0

    def monotonic(self):
        return self._t.monotonic() + self.offset

    def time(self):
        return self._t.time() + self.offset

    def perf_counter(self):
        return self._t.perf_counter() + self.offset

    def sleep(self, d):
        self.offset += max(0.0, d)

    def __getattr__(self, name):
        return getattr(self._t, name)


def _make(kind, errors):
    from bromelia.base import DiameterRequest, DiameterAnswer, DiameterMessage, DiameterHeader
    if kind == "req":
        return DiameterRequest(command_code=316, application_id=16777251)
    if kind == "ulr":
        from bromelia.lib.etsi_3gpp_s6a.messages import UpdateLocationRequest
        return UpdateLocationRequest(session_id=b"s;1;1", origin_host="h", origin_realm="r", destination_realm="r",
                                     user_name="001010000000001", visited_plmn_id=b"\x00\xf1\x10")
    if kind == "cer":
        from bromelia.messages import CER
        return CER(origin_host="h", origin_realm="r", host_ip_address="10.0.0.1")
    if kind == "ccr":
        from bromelia.lib.etsi_3gpp_gx.messages import CreditControlRequest
        return CreditControlRequest(session_id=b"s;1;2", origin_host="h", origin_realm="r", destination_realm="r")
    raise ValueError(kind)


def run_history(case):
    common.bootstrap()
    refdict.all_classes()
    import bromelia.base as base
    from bromelia.base import DiameterRequest, DiameterAnswer, DiameterMessage, DiameterHeader
    errors = common.lib_errors()
    fake = FakeOs(case["source"])
    saved = base.os
    base.os = fake
    clock = FakeTime()
    saved_time = getattr(base, "time", None)
    if saved_time is not None:
        base.time = clock
    DiameterRequest.hop_by_hop_identifiers.clear()
    DiameterRequest.end_to_end_identifiers.clear()
    hbh, e2e = [], []
    vs = []
    try:
        for step, op in enumerate(case["ops"], 1):
            k = op["op"]
            calls0 = fake.calls
            reg0 = (len(DiameterRequest.hop_by_hop_identifiers), len(DiameterRequest.end_to_end_identifiers))
            try:
                if k in ("req", "ulr", "cer", "ccr"):
                    m = _make(k, errors)
                    h, e = m.header.hop_by_hop, m.header.end_to_end
                    if h in hbh:
                        vs.append(V("Hop-by-Hop identifiers of header-less requests are pairwise distinct", "reuse/hop-by-hop",
                                    f"step {step} ({k}): {h!r} already used at request #{hbh.index(h) + 1}"))
                    if e in e2e:
                        vs.append(V("End-to-End identifiers of header-less requests are pairwise distinct", "reuse/end-to-end",
                                    f"step {step} ({k}): {e!r} already used at request #{e2e.index(e) + 1}"))
                    if not (isinstance(h, bytes) and len(h) == 4 and isinstance(e, bytes) and len(e) == 4):
                        vs.append(V("every header-less request receives a Hop-by-Hop and an End-to-End identifier", "identifier-missing",
                                    f"step {step} ({k}): hop_by_hop={h!r} end_to_end={e!r}"))
                    hbh.append(h)
                    e2e.append(e)
                    reg1 = (len(DiameterRequest.hop_by_hop_identifiers), len(DiameterRequest.end_to_end_identifiers))
                    if reg1[0] < reg0[0] + 1 or reg1[1] < reg0[1] + 1:
                        # every identifier handed out so far must still be known when the next one is drawn
                        vs.append(V("identifiers handed out earlier in the process are never forgotten", "registry-forgets/" + ("hop-by-hop" if reg1[0] < reg0[0] + 1 else "end-to-end"),
                                    f"step {step} ({k}): registries {reg0} -> {reg1} although one more request exists"))
                    if not m.header.is_request():
                        vs.append(V("a request carries the R flag", "not-a-request", f"step {step}"))
                elif k == "tick":
                    # process time passes (identifiers stay taken for the life of the process, however long ago they were issued)
                    clock.offset += op["d"]
                elif k == "bad-req":
                    # a construction that is refused after its identifiers were drawn: nothing already handed out is forgotten
                    try:
                        DiameterRequest(command_code=316, application_id=2**32)
                    except errors:
                        pass
                    reg1 = (len(DiameterRequest.hop_by_hop_identifiers), len(DiameterRequest.end_to_end_identifiers))
                    if reg1[0] < reg0[0] or reg1[1] < reg0[1]:
                        vs.append(V("a refused construction never forgets identifiers of the process", "consumes/bad-req", f"step {step}: {reg0}->{reg1}"))
                elif k == "conn-cycle":
                    # a connection of this process ends (disconnect / reset / reconnect) between two request creations: the
                    # process-wide registries must survive it (identifiers are unique for the process, not per connection)
                    import types
                    from bromelia.setup import DiameterAssociation
                    assoc = DiameterAssociation(types.SimpleNamespace(watchdog_timeout=30), None)

                    class _T:
                        is_connected = True

                        def close(self):
                            self.is_connected = False
                    assoc.transport = _T()
                    assoc.end_to_end_identifiers.extend(x.hex() for x in e2e[-2:])
                    assoc.close()
                    reg1 = (len(DiameterRequest.hop_by_hop_identifiers), len(DiameterRequest.end_to_end_identifiers))
                    if reg1 != reg0 or fake.calls != calls0:
                        vs.append(V("closing a connection never consumes or forgets identifiers of the process", "consumes/conn-cycle",
                                    f"step {step}: registries {reg0}->{reg1}, urandom calls {fake.calls - calls0}"))
                else:
                    hv, ev = op.get("hbh", 0), op.get("e2e", 0)
                    hdr = DiameterHeader(command_code=272, application_id=4, hop_by_hop=hv, end_to_end=ev)
                    if k == "req_hdr":
                        m = DiameterRequest(header=hdr)
                    elif k == "ans_hdr":
                        m = DiameterAnswer(header=hdr)
                    elif k == "ans":
                        m = DiameterAnswer(command_code=272, application_id=4)
                        hv = ev = 0
                    elif k == "msg":
                        m = DiameterMessage(hdr)
                    else:
                        raise ValueError(k)
                    if (m.header.get_hop_by_hop(), m.header.get_end_to_end()) != (hv, ev):
                        vs.append(V("explicit-header requests and answers keep the given identifiers", f"explicit-altered/{k}",
                                    f"step {step}: got {(m.header.get_hop_by_hop(), m.header.get_end_to_end())} want {(hv, ev)}"))
                    reg1 = (len(DiameterRequest.hop_by_hop_identifiers), len(DiameterRequest.end_to_end_identifiers))
                    if fake.calls != calls0 or reg1 != reg0:
                        vs.append(V("answers and explicit-header requests never consume or alter identifiers", f"consumes/{k}",
                                    f"step {step}: urandom calls {fake.calls - calls0}, registries {reg0}->{reg1}"))
            except (Exception,) + errors as e:
                vs.append(V("message creation does not fail", f"raises/{k}/{type(e).__name__}", f"step {step}: {e!r}"))
            if vs:
                break
    finally:
        base.os = saved
        if saved_time is not None:
            base.time = saved_time
        DiameterRequest.hop_by_hop_identifiers.clear()
        DiameterRequest.end_to_end_identifiers.clear()
    return vs, fake


def run_case(case):
    if case.get("kind") == "threads":
        from . import c15_threads
        return c15_threads.run_case(case)
    return run_history(case)[0]


idv = st.sampled_from([0, 1, 2**31 - 1, 2**31, 2**32 - 1, 0x10000001, 7])
op = st.one_of(
    st.sampled_from([{"op": "req"}, {"op": "req"}, {"op": "ulr"}, {"op": "cer"}, {"op": "ccr"}, {"op": "ans"}, {"op": "conn-cycle"}, {"op": "bad-req"},
                     {"op": "tick", "d": 250}, {"op": "tick", "d": 1000}, {"op": "tick", "d": 100000}]),
    st.builds(lambda k, h, e: {"op": k, "hbh": h, "e2e": e}, st.sampled_from(["req_hdr", "ans_hdr", "msg"]), idv, idv),
)


@st.composite
def cases(draw):
    alphabet = draw(st.sampled_from([[5], [5, 6], [5, 6, 7], [0, 1], [2**32 - 1, 0]]))
    source = draw(st.lists(st.sampled_from(alphabet), min_size=0, max_size=40))
    if draw(st.integers(0, 2)) == 0:
        # fresh values first, then values derived from the ones already served
        small = st.integers(0, 9)
        derived = st.one_of(st.just(None), small.map(lambda k: {"rep": k}), st.tuples(small, small, st.integers(1, 3)).map(lambda t: {"mix": list(t)}),
                            small.map(lambda k: {"rev": k}), st.tuples(small, st.sampled_from([1, -1, 256, 2**24])).map(lambda t: {"inc": list(t)}))
        source = [None] * draw(st.integers(2, 6)) + draw(st.lists(derived, min_size=1, max_size=14))
    ops = draw(st.lists(op, min_size=2, max_size=14))
    return {"kind": "seq", "source": source, "ops": ops}


def derived_sweep():
    """directed histories: four requests' worth of fresh values, then a value cut across the boundary of two earlier ones (or their
    reversal / successor), handed out once and then produced *again* by the source"""
    out = []
    for i in range(4):
        for j in range(4):
            if i == j:
                continue
            for off in (1, 2, 3):
                for shape in (0, 1, 2):
                    m = {"mix": [i, j, off]}
                    src = [None] * 4 + ([m, None, {"rep": 4}, None], [None, m, None, {"rep": 5}], [m, {"mix": [j, i, off]}, {"rep": 4}, {"rep": 5}])[shape]
                    out.append({"kind": "seq", "source": src, "ops": [{"op": "req"}] * 5})
    for k in range(4):
        for d in ({"rev": k}, {"inc": [k, 1]}, {"inc": [k, 256]}):
            out.append({"kind": "seq", "source": [None] * 4 + [d, d, {"rep": 4}, {"rep": 4}, {"rep": 5}], "ops": [{"op": "req"}] * 5})
    return out


def _collect(shard, seed, n):
    col = Collector(PID, RULE)

    def body(case):
        vs, fake = run_history(case)
        # non-trivial: the source served some value twice while requests were being created
        repeated = len(set(fake.served)) < len(fake.served)
        n_req = sum(1 for o in case["ops"] if o["op"] in ("req", "ulr", "cer", "ccr"))
        f = ["sequential"]
        if repeated and n_req >= 2:
            f.append("source-repeated-a-value")
        if any(o["op"] in ("req_hdr", "ans_hdr", "ans", "msg") for o in case["ops"]):
            f.append("explicit-header-or-answer")
        if any(o["op"] in ("ulr", "cer", "ccr") for o in case["ops"]):
            f.append("typed-request")
        ks = [o["op"] for o in case["ops"]]
        if "conn-cycle" in ks and any(k in ("req", "ulr", "cer", "ccr") for k in ks[:ks.index("conn-cycle")]) and \
                any(k in ("req", "ulr", "cer", "ccr") for k in ks[ks.index("conn-cycle"):]):
            f.append("connection-closed-between-requests")
        col.record(case, vs, nontrivial=repeated and n_req >= 2, classes=f)

    common.hyp_collect(cases(), body, n, seed)
    return col


def main(ctx):
    col = common.run_shards(_collect, 8 if ctx.quick else 16, ctx.seed, n=150 if ctx.quick else 4000)
    try:
        from . import c15_threads
        col.merge(c15_threads.collect(ctx))
        ctx.required_classes = ["threads", "two-threads-in-draw-loop"]
    except ImportError:
        ctx.required_classes = []
    for case in derived_sweep():
        vs, fake = run_history(case)
        col.record(case, vs, nontrivial=len(set(fake.served)) < len(fake.served), classes=["sequential", "source-derives-values-from-earlier-ones"])
    for path, rec in common.load_replays(PID):
        col.record(rec["case"], run_case(rec["case"]), nontrivial=True, classes=["replay"])
    ctx.required_classes += ["source-derives-values-from-earlier-ones", "source-repeated-a-value", "explicit-header-or-answer", "typed-request", "connection-closed-between-requests"]
    ctx.assumptions = ["the random source is bromelia.base.os.urandom, substituted by the harness; registries are cleared at the start of "
                       "each history (one history = one process lifetime)"]

    def shrinker(sig, case):
        if case.get("kind") != "seq":
            return case
        ops = common.ddmin_list(case["ops"], lambda sub: any(v.sig == sig for v in run_history(dict(case, ops=sub))[0]), budget_s=15)
        return dict(case, ops=ops)
    ctx.shrinker = shrinker
    return col

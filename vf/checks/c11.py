"""C11 - named view, AVP list and length stay coherent under mutation.

Generator : operation sequences (append, extend, pop, cleanup, avps=[...],
            msg[i]=avp, update_key, update_avps, refresh) over a small AVP
            alphabet built to provoke the hazards (equal-valued AVPs, substring
            names, unknown AVPs, Grouped), on an empty DiameterMessage, a
            decoded message, typed messages (CER, ULR) and a Grouped AVP.
            Thorough tier adds an exhaustive BFS over sequences to depth 5 on
            a 4-AVP alphabet.
Oracle    : list-based reference container holding object identities; after
            every step: same objects in the same order; name view <-> list is
            a bijection; has_avp agrees; Message Length == len(dump()) ==
            reference size.
"""
import itertools

from hypothesis import strategies as st

from .. import common, refdict
from .. import refcodec as rc
from ..common import V, Collector

PID = "C11"
RULE = ("operation sequences over a 9-AVP alphabet on 5 container kinds, invariants checked after every step; non-trivial = the "
        "sequence contains a pop followed later by an append of the same name, or a pop among equal-valued AVPs, or an item "
        "assignment, or a rename followed by cleanup/pop, or a bulk update; distinct by SHA-1 of the case record")

N_TEMPL = 10


def make(t):
    """fresh AVP object from template index t"""
    from bromelia.base import DiameterAVP
    C = refdict.cls_obj
    if t == 0 or t == 1:
        return C("OriginHostAVP")("host-a")          # two templates, equal value
    if t == 2:
        return C("OriginHostAVP")("host-b.example")
    if t == 3:
        return C("SessionIdAVP")(b"sid;1;2")
    if t == 4:
        return C("AcctMultiSessionIdAVP")(b"multi;1;23")
    if t == 5:
        return C("VendorSpecificApplicationIdAVP")([C("VendorIdAVP")(10415), C("AuthApplicationIdAVP")(16777251)])
    if t == 6:
        return DiameterAVP(code=99999, data=b"xyz")
    if t == 7:
        return DiameterAVP(code=77777, vendor_id=4242, flags=0x80, data=b"q")
    if t == 8:
        return C("UserNameAVP")("u")
    if t == 9:
        # an AVP whose own name ends in "AVP" (Failed-AVP: attribute failed_avp_avp, short name failed_avp)
        return C("FailedAvpAVP")([C("UserNameAVP")("bad")])
    raise ValueError(t)


def ref_size(avp_bytes):
    return len(avp_bytes)


def new_container(kind):
    from bromelia.base import DiameterMessage, DiameterHeader
    if kind == "message":
        return DiameterMessage(DiameterHeader(command_code=316, application_id=16777251, hop_by_hop=1, end_to_end=2))
    if kind == "loaded":
        seed = DiameterMessage(DiameterHeader(command_code=272, application_id=4, flags=0x80), [make(0), make(3), make(6), make(1)])
        return DiameterMessage.load(seed.dump())[0]
    if kind == "loaded-empty":
        # a decoded message that carries no AVP at all (a bare 20-byte header), alone or after another message
        seed = DiameterMessage(DiameterHeader(command_code=272, application_id=4, flags=0x80), [make(0)])
        bare = DiameterMessage(DiameterHeader(command_code=280, application_id=0, hop_by_hop=5, end_to_end=6))
        return DiameterMessage.load(seed.dump() + bare.dump())[1]
    if kind == "cer":
        from bromelia.messages import CER
        return CER(origin_host="host-a", origin_realm="realm", host_ip_address="10.0.0.1")
    if kind == "ulr":
        from bromelia.lib.etsi_3gpp_s6a.messages import UpdateLocationRequest
        return UpdateLocationRequest(session_id=b"sid;9;9", origin_host="host-a", origin_realm="realm", destination_realm="r",
                                     user_name="001010000000001", visited_plmn_id=b"\x00\xf1\x10")
    if kind == "grouped":
        return refdict.cls_obj("FailedAvpAVP")([])
    raise ValueError(kind)


def names_of(c):
    """named view: attribute name -> AVP object"""
    from bromelia.base import DiameterAVP
    out = {}
    for k, v in c.__dict__.items():
        if k in ("_avps", "_header", "_loaded", "_data"):
            continue
        if isinstance(v, DiameterAVP):
            out[k] = v
    return out


def invariants(c, model, kind, step, op):
    """-> list[V]"""
    vs = []
    got = list(c.avps)
    tag = f"after-{op}"
    if [id(a) for a in got] != [id(a) for a in model]:
        if sorted(id(a) for a in got) == sorted(id(a) for a in model):
            why = "order"
        elif len(got) == len(model):
            why = "different-objects-same-count"
        else:
            why = f"count"
        vs.append(V("AVP list holds the expected objects in order", f"list/{why}/{tag}", f"step {step}: {len(got)} listed, {len(model)} expected"))
    # item access reads the same list, from either end
    try:
        if got and not (all(c[i] is model[i] for i in range(len(model))) and c[-1] is model[-1]) and not vs:
            vs.append(V("item access agrees with the AVP list", f"list/getitem/{tag}", f"step {step}"))
    except (Exception,) + common.lib_errors() as e:
        if not vs:
            vs.append(V("item access agrees with the AVP list", f"list/getitem-raises/{tag}/{type(e).__name__}", repr(e)))
    names = names_of(c)
    listed = {id(a) for a in got}
    named = {}
    for k, v in names.items():
        named.setdefault(id(v), []).append(k)
    unnamed = [a for a in got if id(a) not in named]
    if unnamed:
        vs.append(V("one name per listed AVP", f"names/listed-without-name/{tag}", f"step {step}: {len(unnamed)} listed AVP(s) have no attribute"))
    stale = [k for k, v in names.items() if id(v) not in listed]
    if stale:
        vs.append(V("no name left for an unlisted AVP", f"names/stale-name/{tag}", f"step {step}: {stale}"))
    multi = [ks for ks in named.values() if len(ks) > 1]
    if multi:
        vs.append(V("one name per listed AVP", f"names/two-names/{tag}", f"step {step}: {multi}"))
    try:
        for k in names:
            if got and not c.has_avp(k):
                vs.append(V("membership queries agree with the name view", f"has_avp/false-for-present/{tag}", f"step {step}: {k}"))
                break
        # the lower-case AVP-name form of a key (the attribute name without its "_avp" part) is accepted as well
        import re as _re
        for k in names:
            m = _re.fullmatch(r"(.+)_avp(__\d+)?", k)
            if got and m and not k.startswith("_") and kind != "grouped":      # DiameterMessage.has_avp documents both forms
                short = m.group(1) + (m.group(2) or "")
                if short not in names and not c.has_avp(short):
                    vs.append(V("membership queries agree with the name view", f"has_avp/false-for-present-short-name/{tag}", f"step {step}: {short} (attribute {k})"))
                    break
        if c.has_avp("never_added_avp"):
            vs.append(V("membership queries agree with the name view", f"has_avp/true-for-absent/{tag}", f"step {step}"))
    except (Exception,) + common.lib_errors() as e:
        vs.append(V("membership queries do not raise", f"has_avp/raises/{tag}/{type(e).__name__}", repr(e)))
    if kind != "grouped":
        try:
            d = c.dump()
            ln = c.header.get_length()
        except (Exception,) + common.lib_errors() as e:
            vs.append(V("container serialises", f"dump-raises/{tag}/{type(e).__name__}", repr(e)))
            return vs
        if ln != len(d):
            vs.append(V("Message Length equals the size of the serialised message", f"length/{tag}", f"step {step}: field {ln}, size {len(d)}"))
        want = 20 + sum(len(a.dump()) for a in model)
        if len(d) != want and not vs:
            vs.append(V("serialised size equals the reference size", f"size/{tag}", f"step {step}: {len(d)} vs {want}"))
    else:
        want = b"".join(a.dump() for a in model)
        if (c.data or b"") != want and not vs:
            vs.append(V("Grouped data equals the concatenation of its members", f"grouped-data/{tag}", f"step {step}"))
    return vs


def apply_op(c, model, op, kind):
    """Mutates c and model.  Returns (op_name, exception|None)."""
    errors = common.lib_errors()
    name = op["op"]
    names = sorted(names_of(c))
    try:
        if name == "append":
            o = make(op["t"])
            c.append(o)
            model.append(o)
        elif name in ("extend-bad", "set_avps-bad"):
            # a bulk operation whose list contains something that is not an AVP at position `at`: it is refused; whatever part of it
            # took effect before the refusal must leave the message coherent (the caller catches the error and goes on)
            objs = [make(t) for t in op["ts"]]
            bad = objs[:op["at"] % (len(objs) + 1)] + [["not-an-avp", 7, None, b"raw"][op["at"] % 4]] + objs[op["at"] % (len(objs) + 1):]
            before = list(c.avps)
            try:
                if name == "extend-bad":
                    c.extend(bad)
                else:
                    c.avps = bad
            finally:
                after = list(c.avps)
                valid_prefix = objs[:op["at"] % (len(objs) + 1)]
                allowed = [before, before + valid_prefix, valid_prefix, []] if name == "extend-bad" else [before, valid_prefix, []]
                hit = next((a for a in allowed if len(a) == len(after) and all(x is y for x, y in zip(a, after))), None)
                if hit is not None:
                    model[:] = hit
                    op["_partial"] = True
        elif name == "extend":
            objs = [make(t) for t in op["ts"]]
            c.extend(objs)
            model.extend(objs)
        elif name == "pop":
            if not names:
                return "pop-skip", None
            k = names[op["i"] % len(names)]
            target = names_of(c)[k]
            c.pop(k)
            for j, a in enumerate(model):
                if a is target:
                    del model[j]
                    break
        elif name == "cleanup":
            c.cleanup()
            model.clear()
        elif name == "set_avps":
            objs = [make(t) for t in op["ts"]]
            c.avps = objs
            model[:] = objs
        elif name == "setitem":
            if not model:
                return "setitem-skip", None
            i = op["i"] % len(model)
            if op.get("neg"):
                i = i - len(model)           # the same position addressed from the end
            o = make(op["t"])
            c[i] = o
            model[i] = o
        elif name == "update_key":
            if not names:
                return "update_key-skip", None
            k = names[op["i"] % len(names)]
            # precondition by construction: the names the bulk update gives a meaning to (session_id, origin_host) are only handed
            # to an AVP of that kind - calling a Host-IP-Address "session_id_avp" and then bulk-updating it is caller error
            want_cls = {"session_id_avp": "SessionIdAVP", "origin_host_avp": "OriginHostAVP", "origin_host_avp__1": "OriginHostAVP"}.get(op["new"])
            if want_cls and type(names_of(c)[k]).__name__ != want_cls:
                return "update_key-skip-reserved-name", None
            if op["new"] in ("_loaded", "_avps", "_header", "header", "avps") and kind == "grouped":
                return "update_key-skip-message-state-name", None     # these are the *message's* own attributes
            c.update_key(k, op["new"])
        elif name == "update_avps":
            if kind == "grouped":
                return "update_avps-skip", None
            before = list(c.avps)
            c.update_avps({op["key"]: op["value"]})
            after = list(c.avps)
            # the library replaces the AVP object in place: adopt the new identity at the same position
            if len(after) == len(before):
                for j, (b, a) in enumerate(zip(before, after)):
                    if a is not b and j < len(model) and model[j] is b:
                        model[j] = a
        elif name == "refresh":
            if kind == "grouped":
                return "refresh-skip", None
            c.refresh()
        else:
            raise ValueError(name)
    except errors as e:
        return name, e
    except Exception as e:
        return name, e
    return name, None


def run_ops(case):
    common.bootstrap()
    errors = common.lib_errors()
    kind = case["container"]
    c = new_container(kind)
    model = list(c.avps)
    vs = invariants(c, model, kind, 0, "construction")
    if vs:
        return vs
    for step, op in enumerate(case["ops"], 1):
        snapshot = list(model)
        try:
            list(c.avps), c.dump() if hasattr(c, "dump") else None
        except (Exception,) + errors as e:
            return [V("the container stays usable (its AVP list can be read and serialised) after every operation",
                      f"unusable/after-{case['ops'][step - 2]['op'] if step > 1 else 'construction'}/{type(e).__name__}", f"step {step - 1}: {e!r}")]
        name, exc = apply_op(c, model, op, kind)
        if exc is not None:
            if not op.pop("_partial", False):
                model[:] = snapshot
            if not isinstance(exc, errors):
                return [V("container operations on valid arguments do not fail with a foreign error",
                          f"op-raises/{name}/{type(exc).__name__}", f"step {step}: {exc!r}")]
            # a library error: the operation was refused, state must be unchanged
        try:
            vs = invariants(c, model, kind, step, name)
        except (TypeError, AttributeError, KeyError, IndexError) as e:
            return [V("the container stays usable (its AVP list can be read and serialised) after every operation",
                      f"unusable/after-{name}/{type(e).__name__}", f"step {step}: {e!r}")]
        if vs:
            return vs
    return []


def run_case(case):
    return run_ops(case)


# ---------------------------------------------------------------- generators
templ = st.integers(0, N_TEMPL - 1)
NEW_NAMES = ["_x", "_tmp_avp", "__y", "X", "alias", "my_custom_avp", "origin_host_avp", "origin_host_avp__1", "session_id_avp", "renamed_avp__2", "x",
             # names the message uses for its own state: the rename is refused, or at least leaves the message coherent
             "_loaded", "_avps", "_header", "header", "avps"]
UPD = [("origin_host", "host-c.example.org"), ("origin_realm", "new-realm"), ("user_name", "someone"), ("session_id", "sid;7;7;x"),
       ("origin_host__1", "host-d"), ("host_ip_address", "10.9.8.7"), ("unknown", "zzz"), ("vendor_id", 5)]
op = st.one_of(
    st.builds(lambda t: {"op": "append", "t": t}, templ),
    st.builds(lambda t: {"op": "append", "t": t}, st.sampled_from([0, 1, 2, 3])),
    st.builds(lambda ts: {"op": "extend", "ts": ts}, st.lists(templ, min_size=0, max_size=3)),
    st.builds(lambda i: {"op": "pop", "i": i}, st.integers(0, 7)),
    st.builds(lambda i: {"op": "pop", "i": i}, st.integers(0, 7)),
    st.just({"op": "cleanup"}),
    st.builds(lambda ts: {"op": "set_avps", "ts": ts}, st.lists(templ, min_size=0, max_size=3)),
    st.builds(lambda k, ts, at: {"op": k, "ts": ts, "at": at}, st.sampled_from(["extend-bad", "set_avps-bad"]), st.lists(templ, min_size=1, max_size=3),
              st.integers(0, 7)),
    st.builds(lambda i, t, n: {"op": "setitem", "i": i, "t": t, "neg": n}, st.integers(0, 7), templ, st.booleans()),
    st.builds(lambda i, n: {"op": "update_key", "i": i, "new": n}, st.integers(0, 7), st.sampled_from(NEW_NAMES)),
    st.builds(lambda kv: {"op": "update_avps", "key": kv[0], "value": kv[1]}, st.sampled_from(UPD)),
    st.just({"op": "refresh"}),
)
cases = st.builds(lambda k, ops: {"container": k, "ops": ops},
                  st.sampled_from(["message", "message", "loaded", "loaded-empty", "cer", "ulr", "grouped"]), st.lists(op, min_size=1, max_size=15))


def features(case):
    f = {"container=" + case["container"]}
    ops = case["ops"]
    names = [o["op"] for o in ops]
    if "pop" in names and "append" in names[names.index("pop"):]:
        f.add("pop-then-append")
    if "setitem" in names:
        f.add("item-assignment")
    if "update_key" in names and any(n in ("cleanup", "pop") for n in names[names.index("update_key"):]):
        f.add("rename-then-remove")
    if "update_avps" in names:
        f.add("bulk-update")
    eq = sum(1 for o in ops if o["op"] == "append" and o["t"] in (0, 1))
    if eq >= 2 and "pop" in names:
        f.add("pop-among-equal")
    return f


NT = {"pop-then-append", "item-assignment", "rename-then-remove", "bulk-update", "pop-among-equal"}


def _collect(shard, seed, n):
    common.bootstrap()
    refdict.all_classes()
    col = Collector(PID, RULE)

    def body(case):
        f = features(case)
        col.record(case, run_ops(case), nontrivial=bool(f & NT), classes=sorted(f) + [f"len={min(len(case['ops']), 15) // 5 * 5}+"])

    common.hyp_collect(cases, body, n, seed)
    return col


def _bfs(args):
    """exhaustive: all op sequences of length <= depth over a small op alphabet, prefix given"""
    prefix, depth = args
    common.bootstrap()
    refdict.all_classes()
    col = Collector(PID, RULE)
    alphabet = SMALL_OPS
    n = nt = 0
    for tail in itertools.product(range(len(alphabet)), repeat=depth - len(prefix)):
        ops = [alphabet[i] for i in list(prefix) + list(tail)]
        case = {"container": "message", "ops": ops}
        n += 1
        nt += bool(features(case) & NT)
        for v in run_ops(case):
            col.violation(case, v)
    col.count_enum(n, nt, {"bfs": n})
    return col


SMALL_OPS = [{"op": "append", "t": 0}, {"op": "append", "t": 1}, {"op": "append", "t": 3}, {"op": "append", "t": 6},
             {"op": "pop", "i": 0}, {"op": "pop", "i": 1}, {"op": "pop", "i": 2}, {"op": "cleanup"},
             {"op": "setitem", "i": 0, "t": 2}, {"op": "setitem", "i": 1, "t": 3, "neg": True},
             {"op": "update_key", "i": 0, "new": "alias"}, {"op": "update_avps", "key": "origin_host", "value": "host-c"},
             {"op": "set_avps", "ts": [0, 1]}, {"op": "refresh"}]


def main(ctx):
    import multiprocessing
    if ctx.quick:
        col = common.run_shards(_collect, 8, ctx.seed, n=250)
        depth = 4
    else:
        col = common.run_shards(_collect, 16, ctx.seed, n=6000)
        depth = 6
    k = len(SMALL_OPS)
    plen = 1 if depth <= 4 else 2
    jobs = [(p, depth) for p in itertools.product(range(k), repeat=plen)]
    for part in common.pmap(_bfs, jobs):
        col.merge(part)
    col.exhaustive = True
    col.extra["exhaustive_scope"] = f"all {k}^{depth} sequences of exactly {depth} operations over a {k}-operation alphabet on an empty message (invariants after every step, so all shorter sequences are covered as prefixes)"
    for path, rec in common.load_replays(PID):
        col.record(rec["case"], run_case(rec["case"]), nontrivial=True, classes=["replay"])
    ctx.required_classes = sorted(NT) + ["container=grouped", "container=loaded", "container=loaded-empty", "container=cer", "container=ulr", "bfs"]
    ctx.assumptions = ["a fresh AVP object is used for every insertion (the same object is never listed twice)",
                       "operations refused with a library error must leave the container unchanged",
                       "exhaustive depth is 4 (quick) / 6 (thorough), not 12: 14^12 sequences are not affordable"]

    def shrinker(sig, case):
        ops = common.ddmin_list(case["ops"], lambda sub: any(v.sig == sig for v in run_ops(dict(case, ops=sub))), budget_s=20)
        return dict(case, ops=ops)
    ctx.shrinker = shrinker
    return col

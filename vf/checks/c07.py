"""C07 - base-protocol answers echo the identifiers of the request they answer.

Generator : the C06 event machinery biased towards base requests: CER (Closed and
            Open), DWR, DPR with identifiers from {0, 1, 2^31-1, 2^31, 2^32-1, ...},
            two requests in one segment, application traffic in between, a large
            outbound backlog submitted first (send batching limit), and reconnects
            with the same Diameter object.
Oracle    : the bytes written (reference-decoded): for every answered request
            exactly one answer with the same command code, R clear, the request's
            two identifiers, local Origin-Host/Realm and a Result-Code; answers in
            request order; none survives a reconnect.
"""
from .. import common
from .. import refcodec as rc
from ..common import V, Collector
from ..world import LOCAL
from . import c06

PID = "C07"
RULE = ("base-request histories (C06 event machinery, base-heavy generator) on a live node; non-trivial = >= 2 base requests with "
        "different identifiers before the first answer is flushed (same segment), or a reconnect, or an outbound backlog; "
        "distinct by SHA-1 of the case record")


def judge(run):
    vs = []
    answers = [m for m in run.final_written if m["cmd"] in (257, 280, 282) and not m["flags"] & 0x80]
    reqs = list(run.requests)
    label = {257: "CEA", 280: "DWA", 282: "DPA"}
    if len(answers) != len(reqs):
        kind = "missing" if len(answers) < len(reqs) else "extra"
        vs.append(V("every answered base request gets exactly one answer", f"count/{kind}",
                    f"{len(answers)} answers for {len(reqs)} requests: answers {[(a['cmd'], a['hbh']) for a in answers]} requests {[(r[0], r[1]) for r in reqs]}"))
    for i, (a, r) in enumerate(zip(answers, reqs)):
        cmd, hbh, e2e, gen = r
        lab = label.get(cmd, str(cmd))
        if a["cmd"] != cmd:
            vs.append(V("answers are emitted in request order with the request's command code", f"order/{lab}", f"answer {i}: cmd {a['cmd']} for request {cmd}"))
            break
        if a["hbh"] != hbh or a["e2e"] != e2e:
            others = [(x[1], x[2]) for x in reqs if x is not r]
            why = "ids-of-another-request" if (a["hbh"], a["e2e"]) in others or a["hbh"] in [o[0] for o in others] else "wrong-ids"
            vs.append(V("the answer carries its request's Hop-by-Hop and End-to-End identifiers", f"identifiers/{lab}/{why}",
                        f"answer {i} ({lab}) has ({a['hbh']:#x},{a['e2e']:#x}), request had ({hbh:#x},{e2e:#x})"))
        oh = rc.find_avp(a["avps"], 264)
        orr = rc.find_avp(a["avps"], 296)
        if len(oh) != 1 or oh[0]["data"] != LOCAL["host"].encode() or len(orr) != 1 or orr[0]["data"] != LOCAL["realm"].encode():
            vs.append(V("the answer carries the local Origin-Host and Origin-Realm", f"origin/{lab}", f"{[x['data'] for x in oh]} {[x['data'] for x in orr]}"))
        if not rc.find_avp(a["avps"], 268):
            vs.append(V("the answer carries a Result-Code", f"result-code/{lab}", ""))
        if a["length"] != len(a["raw"]):
            vs.append(V("the answer is well-formed", f"length/{lab}", ""))
    seen, out = set(), []
    for v in vs:
        if v.sig not in seen:
            seen.add(v.sig)
            out.append(v)
    return out


def run_case(case):
    run, info = c06.execute(case)
    # C06 violations that make the history meaningless for C07 (state divergence) are not C07 verdicts
    return judge(run)


def features(case, info):
    f = set()
    app = info.get("applied", [])
    if "dwr-pair" in app or "app-req-pair-dwr" in app:
        f.add("two-requests-in-one-segment")
    if "restart" in app:
        f.add("reconnect")
    if case.get("backlog"):
        f.add("outbound-backlog")
    n = sum(1 for e in app if e in ("cer", "dwr", "dpr", "dwr-pair", "app-req-pair-dwr"))
    if n >= 2:
        f.add("several-base-requests")
    if "cer" in app and app.index("cer") > 0:
        f.add("cer-while-open-or-later")
    return f


def _collect(shard, seed, n):
    common.bootstrap()
    col = Collector(PID, RULE)

    def body(case):
        run, info = c06.execute(case)
        f = features(case, info)
        col.record(case, judge(run), nontrivial=bool(f & {"two-requests-in-one-segment", "reconnect", "outbound-backlog"}), classes=sorted(f))
        col.extra["base_requests_answered"] = col.extra.get("base_requests_answered", 0) + len(run.requests)

    common.hyp_collect(c06.cases(base_heavy=True), body, n, seed)
    return col


def main(ctx):
    col = common.run_shards(_collect, 8 if ctx.quick else 16, ctx.seed, n=120 if ctx.quick else 2500)
    for path, rec in common.load_replays(PID):
        col.record(rec["case"], run_case(rec["case"]), nontrivial=True, classes=["replay"])
    ctx.required_classes = ["two-requests-in-one-segment", "reconnect", "outbound-backlog", "several-base-requests"]
    ctx.assumptions = ["answered requests = valid CER (Closed responder / Open), valid DWR and valid DPR received while Open, as decided by the "
                       "C06 reference model; fair schedule with virtual-time settling"]

    def shrinker(sig, case):
        evs = common.ddmin_list(case["events"], lambda sub: any(v.sig == sig for v in run_case(dict(case, events=sub))), budget_s=40)
        return dict(case, events=evs)
    ctx.shrinker = shrinker
    return col

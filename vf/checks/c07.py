"""C07 - base-protocol answers echo the identifiers of the request they answer.

Generator : the C06 event machinery biased towards base requests: CER (Closed and
            Open), DWR, DPR with identifiers from {0, 1, 2^31-1, 2^31, 2^32-1, ...},
            two requests in one segment, application traffic in between, a large
            outbound backlog submitted first (send batching limit), and reconnects
            with the same Diameter object.
Oracle    : the bytes written (reference-decoded): for every answered request
            exactly one answer with the same command code, R clear, the request's
            two identifiers, local Origin-Host/Realm and a Result-Code; answers in
            request order; none survives a reconnect.
"""
from .. import common
from .. import refcodec as rc
from ..common import V, Collector
from ..world import LOCAL
from . import c06

PID = "C07"
RULE = ("base-request histories (C06 event machinery, base-heavy generator) on a live node; non-trivial = >= 2 base requests with "
        "different identifiers before the first answer is flushed (same segment), or a reconnect, or an outbound backlog; "
        "distinct by SHA-1 of the case record")


def _exact_alignment(answers, log):
    """-> [(answer, request)] when the answers are, in order, exactly the answers (command and both identifiers) of a subsequence
    of the requests that leaves out optional requests only; else None"""
    import functools
    A, L = answers, log

    @functools.lru_cache(maxsize=None)
    def ok(ai, li):
        if ai == len(A):
            return all(r[4] for r in L[li:])
        if li == len(L):
            return False
        r = L[li]
        if (A[ai]["cmd"], A[ai]["hbh"], A[ai]["e2e"]) == r[:3] and ok(ai + 1, li + 1):
            return True
        return bool(r[4]) and ok(ai, li + 1)
    if not ok(0, 0):
        return None
    out, ai, li = [], 0, 0
    while ai < len(A):
        r = L[li]
        if (A[ai]["cmd"], A[ai]["hbh"], A[ai]["e2e"]) == r[:3] and ok(ai + 1, li + 1):
            out.append((A[ai], r[:4]))
            ai += 1
        li += 1
    return out


def judge(run):
    vs = []
    answers = [m for m in run.final_written if m["cmd"] in (257, 280, 282) and not m["flags"] & 0x80]
    label = {257: "CEA", 280: "DWA", 282: "DPA"}
    # requests in arrival order; potentially re-transmitted ones (T flag) may or may not be answered: an answer is matched with
    # the next request that must be answered unless it is exactly the answer of an optional request standing before it
    log = list(getattr(run, "req_log", None) or [r + (False,) for r in run.requests])
    reqs, pairs, i = [r[:4] for r in log if not r[4]], [], 0
    stray = []
    exact = _exact_alignment(answers, log)
    if exact is not None:
        # every answer is exactly the answer of one request, in order, and only optional requests are left out
        pairs, missing = exact, []
    else:
        for a in answers:
            j = i
            while j < len(log) and log[j][4] and (a["cmd"], a["hbh"], a["e2e"]) != log[j][:3]:
                j += 1
            if j == len(log):
                stray.append(a)
                continue
            pairs.append((a, log[j][:4]))
            i = j + 1
        missing = [r for r in log[i:] if not r[4]]
    for a in stray:
        skipped = [r for r in log if r[4] and r[0] == a["cmd"]]
        if skipped:
            vs.append(V("the answer carries its request's Hop-by-Hop and End-to-End identifiers",
                        f"identifiers/{label.get(a['cmd'])}/answer-to-an-optionally-answered-request-with-other-ids",
                        f"answer ({a['hbh']:#x},{a['e2e']:#x}); optionally answered requests were {[(hex(r[1]), hex(r[2])) for r in skipped]}"))
        else:
            vs.append(V("every answered base request gets exactly one answer", "count/extra",
                        f"answer {(a['cmd'], hex(a['hbh']))} matches no request; requests {[(r[0], hex(r[1])) for r in log]}"))
    if missing:
        vs.append(V("every answered base request gets exactly one answer", "count/missing",
                    f"{len(answers)} answers; unanswered requests {[(r[0], hex(r[1])) for r in missing]}; answers {[(a['cmd'], hex(a['hbh'])) for a in answers]}"))
    for i, (a, r) in enumerate(pairs):
        cmd, hbh, e2e, gen = r
        lab = label.get(cmd, str(cmd))
        if a["cmd"] != cmd:
            vs.append(V("answers are emitted in request order with the request's command code", f"order/{lab}", f"answer {i}: cmd {a['cmd']} for request {cmd}"))
            break
        if a["hbh"] != hbh or a["e2e"] != e2e:
            others = [(x[1], x[2]) for x in reqs if x is not r]
            why = "ids-of-another-request" if (a["hbh"], a["e2e"]) in others or a["hbh"] in [o[0] for o in others] else "wrong-ids"
            vs.append(V("the answer carries its request's Hop-by-Hop and End-to-End identifiers", f"identifiers/{lab}/{why}",
                        f"answer {i} ({lab}) has ({a['hbh']:#x},{a['e2e']:#x}), request had ({hbh:#x},{e2e:#x})"))
        oh = rc.find_avp(a["avps"], 264)
        orr = rc.find_avp(a["avps"], 296)
        if len(oh) != 1 or oh[0]["data"] != LOCAL["host"].encode() or len(orr) != 1 or orr[0]["data"] != LOCAL["realm"].encode():
            vs.append(V("the answer carries the local Origin-Host and Origin-Realm", f"origin/{lab}", f"{[x['data'] for x in oh]} {[x['data'] for x in orr]}"))
        if not rc.find_avp(a["avps"], 268):
            vs.append(V("the answer carries a Result-Code", f"result-code/{lab}", ""))
        if a["length"] != len(a["raw"]):
            vs.append(V("the answer is well-formed", f"length/{lab}", ""))
    seen, out = set(), []
    for v in vs:
        if v.sig not in seen:
            seen.add(v.sig)
            out.append(v)
    return out


def run_two_nodes(case):
    """Two node objects of one process with the same local identity (the same Diameter node reaching two peers), each open towards
    its own peer; both receive a base request at the same moment and one state machine thread is parked at the n-th source line it
    executes from then on (for 0.05 virtual s) while the other goes on.  Every answer on a connection must be the answer of the
    request received on *that* connection."""
    import struct
    from ..world import World, LOCAL, PEER, peer_cea, peer_dwr, peer_dpr
    from .. import refdict
    refdict.all_classes()
    vs, info = [], {}
    with World(role="client", apps=["s6a"], line_holds=True, max_steps=900000) as w:
        if not w.open_connection():
            return [V("harness: connection setup failed", "harness/setup", w.state())], info
        sock1 = w.sock
        from bromelia.setup import Diameter
        cfg = {"MODE": "CLIENT", "TRANSPORT_TYPE": "TCP",
               "APPLICATIONS": [{"vendor_id": struct.pack(">I", 10415), "app_id": struct.pack(">I", 16777251)}],
               "LOCAL_NODE_HOSTNAME": LOCAL["host"], "LOCAL_NODE_REALM": LOCAL["realm"], "LOCAL_NODE_IP_ADDRESS": LOCAL["ip"],
               "LOCAL_NODE_PORT": LOCAL["port"] + 1, "PEER_NODE_HOSTNAME": PEER["host"], "PEER_NODE_REALM": PEER["realm"],
               "PEER_NODE_IP_ADDRESS": PEER["ip"], "PEER_NODE_PORT": PEER["port"] + 1, "WATCHDOG_TIMEOUT": 30}
        d2 = Diameter(config=cfg)
        n0 = len(w.net.socks)
        w.call("app-start-2", lambda: d2.start())
        second = lambda: next((s_ for s_ in w.net.socks[n0:] if s_.kind == "stream" and s_.state != "new"), None)
        w.run(lambda: second() is not None and any(m["cmd"] == 257 for m in w.sent_messages(second())), 10.0)
        sock2 = second()
        if sock2 is None:
            return [V("harness: second node did not connect", "harness/setup-2", "")], info
        cer2 = next(m for m in w.sent_messages(sock2) if m["cmd"] == 257)
        w.feed(peer_cea(cer2["hbh"], cer2["e2e"]), sock=sock2)
        w.run(lambda: d2.is_open(), 10.0)
        if not d2.is_open():
            return [V("harness: second node did not open", "harness/setup-2", d2.get_current_state())], info
        mk = peer_dwr if case["req"] == "dwr" else peer_dpr
        ids = {id(sock1): (0x0A0A0A01, 0xE0E0E001), id(sock2): (0x0B0B0B02, 0xF0F0F002)}
        before = w.sched.holds_taken
        w.sched.hold("client_psm_thread", "line:*", case["n"], lambda: False, 0.05)
        w.feed(mk(*ids[id(sock1)]), sock=sock1)
        w.feed(mk(*ids[id(sock2)]), sock=sock2)
        cmd = 280 if case["req"] == "dwr" else 282
        answers = lambda s_: [m for m in w.sent_messages(s_) if m["cmd"] == cmd and not m["flags"] & 0x80]
        w.run(lambda: len(answers(sock1)) >= 1 and len(answers(sock2)) >= 1, 5.0)
        w.run(lambda: False, 0.2)
        info["parked"] = w.sched.holds_taken > before
        for name, s_ in (("first", sock1), ("second", sock2)):
            got = [(m["hbh"], m["e2e"]) for m in answers(s_)]
            if got != [ids[id(s_)]]:
                other = ids[id(sock2 if s_ is sock1 else sock1)]
                why = "ids-of-the-request-received-by-the-other-node-object" if other in got else ("missing" if not got else "wrong-ids")
                vs.append(V("every base answer carries the identifiers of the request it answers - also when another node object of the "
                            "process answers a request at the same time", f"two-nodes/{'DWA' if cmd == 280 else 'DPA'}/{why}",
                            f"{name} connection: answers {[(hex(a), hex(b)) for a, b in got]}, request {tuple(map(hex, ids[id(s_)]))}; line {case['n']}"))
        world = w
    if world.unreaped:
        raise RuntimeError(f"harness could not reap threads: {world.unreaped}")
    return vs[:1], info


def _two_nodes_sweep(args):
    common.bootstrap()
    col = Collector(PID, RULE)
    for req, n in args:
        case = {"kind": "two-nodes", "req": req, "n": n}
        vs, info = run_two_nodes(case)
        col.record(case, vs, nontrivial=bool(info.get("parked")), classes=["two-node-objects-answering-at-once"])
    return col


def run_case(case):
    if case.get("kind") == "two-nodes":
        return run_two_nodes(case)[0]
    run, info = c06.execute(case)
    # C06 violations that make the history meaningless for C07 (state divergence) are not C07 verdicts
    return judge(run)


def features(case, info):
    f = set()
    app = info.get("applied", [])
    if "dwr-pair" in app or "app-req-pair-dwr" in app:
        f.add("two-requests-in-one-segment")
    if "restart" in app:
        f.add("reconnect")
    if "dwr-retx" in app or "cer-retx" in app:
        f.add("retransmitted-request-same-e2e-new-hbh")
    if case.get("backlog"):
        f.add("outbound-backlog")
    n = sum(1 for e in app if e in ("cer", "dwr", "dpr", "dwr-pair", "app-req-pair-dwr"))
    if n >= 2:
        f.add("several-base-requests")
    if "cer" in app and app.index("cer") > 0:
        f.add("cer-while-open-or-later")
    return f


def _collect(shard, seed, n):
    common.bootstrap()
    col = Collector(PID, RULE)

    def body(case):
        run, info = c06.execute(case)
        f = features(case, info)
        col.record(case, judge(run), nontrivial=bool(f & {"two-requests-in-one-segment", "reconnect", "outbound-backlog"}), classes=sorted(f))
        col.extra["base_requests_answered"] = col.extra.get("base_requests_answered", 0) + len(run.requests)

    common.hyp_collect(c06.cases(base_heavy=True), body, n, seed)
    return col


def main(ctx):
    col = common.run_shards(_collect, 8 if ctx.quick else 16, ctx.seed, n=120 if ctx.quick else 2500)
    pts = [(req, n) for req in ("dwr", "dpr") for n in range(1, 301 if ctx.quick else 601, 2 if ctx.quick else 1)]
    for part in common.pmap(_two_nodes_sweep, [pts[i::16] for i in range(16)]):
        col.merge(part)
    for path, rec in common.load_replays(PID):
        col.record(rec["case"], run_case(rec["case"]), nontrivial=True, classes=["replay"])
    ctx.required_classes = ["two-node-objects-answering-at-once", "two-requests-in-one-segment", "reconnect", "outbound-backlog", "several-base-requests", "retransmitted-request-same-e2e-new-hbh"]
    ctx.assumptions = ["answered requests = valid CER (Closed responder / Open), valid DWR and valid DPR received while Open, as decided by the "
                       "C06 reference model; fair schedule with virtual-time settling"]

    def shrinker(sig, case):
        evs = common.ddmin_list(case["events"], lambda sub: any(v.sig == sig for v in run_case(dict(case, events=sub))), budget_s=40)
        return dict(case, events=evs)
    ctx.shrinker = shrinker
    return col

"""C07 - base-protocol answers echo the identifiers of the request they answer.

Generator : the C06 event machinery biased towards base requests: CER (Closed and
            Open), DWR, DPR with identifiers from {0, 1, 2^31-1, 2^31, 2^32-1, ...},
            two requests in one segment, application traffic in between, a large
            outbound backlog submitted first (send batching limit), and reconnects
            with the same Diameter object.
Oracle    : the bytes written (reference-decoded): for every answered request
            exactly one answer with the same command code, R clear, the request's
            two identifiers, local Origin-Host/Realm and a Result-Code; answers in
            request order; none survives a reconnect.
"""
from .. import common
from .. import refcodec as rc
from ..common import V, Collector
from ..world import LOCAL
from . import c06

PID = "C07"
RULE = ("base-request histories (C06 event machinery, base-heavy generator) on a live node; non-trivial = >= 2 base requests with "
        "different identifiers before the first answer is flushed (same segment), or a reconnect, or an outbound backlog; "
        "distinct by SHA-1 of the case record")


def _exact_alignment(answers, log):
    """-> [(answer, request)] when the answers are, in order, exactly the answers (command and both identifiers) of a subsequence
    of the requests that leaves out optional requests only; else None"""
    import functools
    A, L = answers, log

    @functools.lru_cache(maxsize=None)
    def ok(ai, li):
        if ai == len(A):
            return all(r[4] for r in L[li:])
        if li == len(L):
            return False
        r = L[li]
        if (A[ai]["cmd"], A[ai]["hbh"], A[ai]["e2e"]) == r[:3] and ok(ai + 1, li + 1):
            return True
        return bool(r[4]) and ok(ai, li + 1)
    if not ok(0, 0):
        return None
    out, ai, li = [], 0, 0
    while ai < len(A):
        r = L[li]
        if (A[ai]["cmd"], A[ai]["hbh"], A[ai]["e2e"]) == r[:3] and ok(ai + 1, li + 1):
            out.append((A[ai], r[:4]))
            ai += 1
        li += 1
    return out


def judge(run):
    vs = []
    answers = [m for m in run.final_written if m["cmd"] in (257, 280, 282) and not m["flags"] & 0x80]
    label = {257: "CEA", 280: "DWA", 282: "DPA"}
    # requests in arrival order; potentially re-transmitted ones (T flag) may or may not be answered: an answer is matched with
    # the next request that must be answered unless it is exactly the answer of an optional request standing before it
    log = list(getattr(run, "req_log", None) or [r + (False,) for r in run.requests])
    reqs, pairs, i = [r[:4] for r in log if not r[4]], [], 0
    stray = []
    exact = _exact_alignment(answers, log)
    if exact is not None:
        # every answer is exactly the answer of one request, in order, and only optional requests are left out
        pairs, missing = exact, []
    else:
        for a in answers:
            j = i
            while j < len(log) and log[j][4] and (a["cmd"], a["hbh"], a["e2e"]) != log[j][:3]:
                j += 1
            if j == len(log):
                stray.append(a)
                continue
            pairs.append((a, log[j][:4]))
            i = j + 1
        missing = [r for r in log[i:] if not r[4]]
    for a in stray:
        skipped = [r for r in log if r[4] and r[0] == a["cmd"]]
        if skipped:
            vs.append(V("the answer carries its request's Hop-by-Hop and End-to-End identifiers",
                        f"identifiers/{label.get(a['cmd'])}/answer-to-an-optionally-answered-request-with-other-ids",
                        f"answer ({a['hbh']:#x},{a['e2e']:#x}); optionally answered requests were {[(hex(r[1]), hex(r[2])) for r in skipped]}"))
        else:
            vs.append(V("every answered base request gets exactly one answer", "count/extra",
                        f"answer {(a['cmd'], hex(a['hbh']))} matches no request; requests {[(r[0], hex(r[1])) for r in log]}"))
    if missing:
        vs.append(V("every answered base request gets exactly one answer", "count/missing",
                    f"{len(answers)} answers; unanswered requests {[(r[0], hex(r[1])) for r in missing]}; answers {[(a['cmd'], hex(a['hbh'])) for a in answers]}"))
    for i, (a, r) in enumerate(pairs):
        cmd, hbh, e2e, gen = r
        lab = label.get(cmd, str(cmd))
        if a["cmd"] != cmd:
            vs.append(V("answers are emitted in request order with the request's command code", f"order/{lab}", f"answer {i}: cmd {a['cmd']} for request {cmd}"))
            break
        if a["hbh"] != hbh or a["e2e"] != e2e:
            others = [(x[1], x[2]) for x in reqs if x is not r]
            why = "ids-of-another-request" if (a["hbh"], a["e2e"]) in others or a["hbh"] in [o[0] for o in others] else "wrong-ids"
            vs.append(V("the answer carries its request's Hop-by-Hop and End-to-End identifiers", f"identifiers/{lab}/{why}",
                        f"answer {i} ({lab}) has ({a['hbh']:#x},{a['e2e']:#x}), request had ({hbh:#x},{e2e:#x})"))
        oh = rc.find_avp(a["avps"], 264)
        orr = rc.find_avp(a["avps"], 296)
        if len(oh) != 1 or oh[0]["data"] != LOCAL["host"].encode() or len(orr) != 1 or orr[0]["data"] != LOCAL["realm"].encode():
            vs.append(V("the answer carries the local Origin-Host and Origin-Realm", f"origin/{lab}", f"{[x['data'] for x in oh]} {[x['data'] for x in orr]}"))
        if not rc.find_avp(a["avps"], 268):
            vs.append(V("the answer carries a Result-Code", f"result-code/{lab}", ""))
        if a["length"] != len(a["raw"]):
            vs.append(V("the answer is well-formed", f"length/{lab}", ""))
    seen, out = set(), []
    for v in vs:
        if v.sig not in seen:
            seen.add(v.sig)
            out.append(v)
    return out


def run_case(case):
    run, info = c06.execute(case)
    # C06 violations that make the history meaningless for C07 (state divergence) are not C07 verdicts
    return judge(run)


def features(case, info):
    f = set()
    app = info.get("applied", [])
    if "dwr-pair" in app or "app-req-pair-dwr" in app:
        f.add("two-requests-in-one-segment")
    if "restart" in app:
        f.add("reconnect")
    if "dwr-retx" in app or "cer-retx" in app:
        f.add("retransmitted-request-same-e2e-new-hbh")
    if case.get("backlog"):
        f.add("outbound-backlog")
    n = sum(1 for e in app if e in ("cer", "dwr", "dpr", "dwr-pair", "app-req-pair-dwr"))
    if n >= 2:
        f.add("several-base-requests")
    if "cer" in app and app.index("cer") > 0:
        f.add("cer-while-open-or-later")
    return f


def _collect(shard, seed, n):
    common.bootstrap()
    col = Collector(PID, RULE)

    def body(case):
        run, info = c06.execute(case)
        f = features(case, info)
        col.record(case, judge(run), nontrivial=bool(f & {"two-requests-in-one-segment", "reconnect", "outbound-backlog"}), classes=sorted(f))
        col.extra["base_requests_answered"] = col.extra.get("base_requests_answered", 0) + len(run.requests)

    common.hyp_collect(c06.cases(base_heavy=True), body, n, seed)
    return col


def main(ctx):
    col = common.run_shards(_collect, 8 if ctx.quick else 16, ctx.seed, n=120 if ctx.quick else 2500)
    for path, rec in common.load_replays(PID):
        col.record(rec["case"], run_case(rec["case"]), nontrivial=True, classes=["replay"])
    ctx.required_classes = ["two-requests-in-one-segment", "reconnect", "outbound-backlog", "several-base-requests", "retransmitted-request-same-e2e-new-hbh"]
    ctx.assumptions = ["answered requests = valid CER (Closed responder / Open), valid DWR and valid DPR received while Open, as decided by the "
                       "C06 reference model; fair schedule with virtual-time settling"]

    def shrinker(sig, case):
        evs = common.ddmin_list(case["events"], lambda sub: any(v.sig == sig for v in run_case(dict(case, events=sub))), budget_s=40)
        return dict(case, events=evs)
    ctx.shrinker = shrinker
    return col

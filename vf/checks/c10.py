"""C10 - the AVP dictionary is unambiguous and every class enforces its type.

(1) uniqueness, exhaustive: no two different definitions share (vendor, code)
(2) identity: instances carry the class's code/vendor, V flag <=> vendor class,
    DiameterAVP.load(dump()) dispatches to that class
(3) type enforcement: every class x values inside and outside the type's
    domain: out-of-domain => exception; never a silently malformed/empty AVP
(4) published identity, exhaustive: every class agrees with the vendored
    dictionary, docs/list-of-avps.md and bromelia/definitions.py
"""
import datetime
import os
import re
import struct

from hypothesis import strategies as st

from .. import common, gens, refdict
from .. import refcodec as rc
from ..common import V, Collector

PID = "C10"
RULE = ("every dictionary class x a fixed table of out-of-domain value kinds per data type (exhaustive over the table) plus "
        "Hypothesis-generated in-domain and wrong-width values; non-trivial = value outside the type's domain or at a domain "
        "boundary (0, max, min/max width); distinct by (class, value)")

TYPE_NAMES = ["Enumerated", "Integer32", "Unsigned32", "Unsigned64", "Grouped", "Address", "Time", "UTF8String",
              "DiameterIdentity", "DiameterURI", "OctetString"]


def lib_type(c):
    for b in c.__mro__:
        if b.__module__ == "bromelia.types" and b.__name__.endswith("Type") and b.__name__[:-4] in TYPE_NAMES:
            return b.__name__[:-4]
    return None


# ---------------------------------------------------------------- (3) out-of-domain table
def bad_values(row):
    """-> list of (kind, python value).  Only values that are unambiguously outside the declared type."""
    t = row["type"]
    name = row["cls"]
    out = []
    if t in ("Unsigned32", "Enumerated", "Integer32", "Time"):
        width = 4
    elif t == "Unsigned64":
        width = 8
    else:
        width = None
    if width:
        for n in range(0, 13):
            if n != width:
                out.append((f"bytes-len{n}", bytes(range(1, n + 1))))
    if t == "Unsigned32":
        out += [("int-negative", -1), ("int-2^32", 2**32), ("int-2^64", 2**64), ("str", "abc"), ("str-digits", "1234"),
                ("None", None), ("float", 1.5), ("list", [1]), ("bytearray4", bytearray(4))]
    if t == "Unsigned64":
        out += [("int-negative", -1), ("int-min64", -2**63), ("int-2^64", 2**64), ("str", "abc"), ("str-8", "12345678"),
                ("None", None), ("float", 1.5), ("list", [1])]
    if t == "Integer32":
        out += [("str-4", "abcd"), ("list-4", [1, 2, 3, 4]), ("tuple-4", (1, 2, 3, 4)), ("int", 7), ("None", None), ("float", 1.5)]
    if t == "Enumerated":
        vals = set(row["values"])
        non = [n for n in (max(vals) + 1, 2**31 - 1, 2**32 - 1, 999999) if n not in vals]
        out += [("non-member", struct.pack(">I", non[0])), ("non-member-max", struct.pack(">I", non[-1])),
                ("int-member", row["values"][0]), ("str", "abcd"), ("None", None)]
    if t == "Address" and name != "FramedIpAddressAVP":
        out += [("v4-family-width3", b"\x00\x01\x01\x02\x03"), ("v4-family-width5", b"\x00\x01\x01\x02\x03\x04\x05"),
                ("v4-family-width16", b"\x00\x01" + bytes(16)), ("v6-family-width4", b"\x00\x02\x01\x02\x03\x04"),
                ("v6-family-width15", b"\x00\x02" + bytes(15)), ("v6-family-width17", b"\x00\x02" + bytes(17)),
                ("v4-family-only", b"\x00\x01"), ("v6-family-only", b"\x00\x02"),
                ("str-garbage", "not-an-ip"), ("str-3-octets", "1.2.3"), ("str-5-octets", "1.2.3.4.5"), ("str-256", "256.1.1.1"),
                ("str-empty", ""), ("str-cidr", "10.0.0.0/8"), ("None", None), ("float", 1.5), ("list", ["1.2.3.4"]),
                ("str-trailing-lf", "10.0.0.1\n"), ("str-trailing-space", "10.0.0.1 "), ("str-unicode-digit", "10.0.0.\u0663")]
    if t == "Time":
        out += [("str", "2020-01-01"), ("int", 5), ("None", None), ("float", 1.5), ("date", datetime.date(2020, 1, 1)),
                ("dt-1899", datetime.datetime(1899, 12, 31, 23, 59, 59)), ("dt-2036-overflow", datetime.datetime(2036, 2, 7, 6, 28, 16)),
                ("dt-2100", datetime.datetime(2100, 1, 1))]
    if t == "DiameterURI":
        out += [("trailing-lf", "aaa://host.example.com\n"), ("trailing-lf-bytes", b"aaas://host.example.com:3868\n"),
                ("trailing-space", "aaa://host.example.com "), ("leading-lf", "\naaa://host.example.com"), ("embedded-lf", "aaa://host.exa\nmple.com"),
                ("http", "http://host.example.com"), ("empty", ""), ("scheme-only", "aaa://"), ("no-scheme", "host.example.com"),
                ("http-bytes", b"http://host.example.com"), ("None", None), ("int", 5), ("diameter-scheme", "diameter://host.example.com"),
                ("aaa-uppercase-scheme-missing-slashes", "aaa:host.example.com")]
        # transport/port grammar is not judged: the statement only claims the aaa/aaas scheme
    if t in ("OctetString", "UTF8String", "DiameterIdentity") and name not in ("MsisdnAVP", "StnSrAVP", "EapPayloadAVP"):
        out += [("int", 5), ("None", None), ("float", 1.5), ("list", [b"a"]), ("bytearray", bytearray(b"ab"))]
    if t == "Grouped":
        out += [("None", None), ("str", "abc"), ("int", 5), ("list-with-non-avp", ["x"]), ("list-with-bytes", [b"\x00" * 8]),
                ("garbage-bytes-3", b"\x01\x02\x03"), ("garbage-bytes-7", bytes(7)), ("truncated-member", bytes.fromhex("0000010840000010616263")),
                ("member-length-too-small", bytes.fromhex("0000010840000004")), ("tuple", ())]
        if row.get("mandatory"):
            out += [("missing-mandatory-empty-list", []), ("missing-mandatory-empty-bytes", b"")]
    return out


def check_bad(row, kind, value):
    cls = refdict.cls_obj(row["cls"])
    errors = common.lib_errors()
    try:
        obj = cls(value)
    except (Exception,) + errors:
        return []
    # an instance came back for an out-of-domain value
    try:
        d = obj.dump()
    except (Exception,) + errors as e:
        return [V("construction from an out-of-domain value fails with an exception (never a silently malformed AVP)",
                  f"type-enforcement/{row['type']}/{kind}/unserialisable", f"{row['cls']}({value!r}) built; dump() raises {type(e).__name__}")]
    return [V("construction from an out-of-domain value fails with an exception (never a silently malformed or empty AVP)",
              f"type-enforcement/{row['type']}/{kind}/accepted", f"{row['cls']}({value!r}) built; dump()={d.hex()[:64]}")]


def check_bad_decode(row, kind, value):
    """the same out-of-domain data arriving on the wire under the class's (vendor, code), with the M and P bits in every
    combination, alone, inside a message and as a member of a Grouped AVP: decoding either fails or yields an instance of the
    dictionary class - a known pair is never handed back as an unvalidated generic AVP carrying the illegal value"""
    from bromelia.base import DiameterAVP, DiameterMessage
    cls = refdict.cls_obj(row["cls"])
    errors = common.lib_errors()
    vs = []
    vbit = 0x80 if row["vendor"] is not None else 0
    for fl in (row["flags"], vbit, vbit | 0x40, vbit | 0x20, vbit | 0x60):
        wire = rc.enc_avp(row["code"], fl, row["vendor"], value)
        forms = [("avp", lambda w=wire: DiameterAVP.load(w)),
                 ("message", lambda w=wire: DiameterMessage.load(rc.enc_msg(1, 0x80, 316, 16777251, 1, 2, [w]))[0].avps),
                 ("member", lambda w=wire: DiameterAVP.load(rc.enc_avp(279, 0x40, None, w))[0].avps)]
        for form, f in forms:
            try:
                got = list(f())
            except (Exception,) + errors:
                continue
            bad = [a for a in got if a.code == struct.pack(">I", row["code"]) and not isinstance(a, cls)]
            if bad:
                vs.append(V("decoding dispatches each (vendor, code) to its class, which enforces the declared type",
                            f"decode-out-of-domain/{row['type']}/kept-as-{type(bad[0]).__name__}/M={'set' if fl & 0x40 else 'clear'}/{form}",
                            f"{row['cls']} data {value.hex()[:40]} flags {fl:#04x}: decoded to {type(bad[0]).__name__}"))
                break
        if vs:
            break
    return vs


AWARE_OFFSETS = [0, 330, -180, 840, -720, 60]        # minutes east of UTC
AWARE_INSTANTS = [(2020, 6, 1, 12, 0, 0), (1970, 1, 1, 0, 0, 0), (2001, 9, 9, 1, 46, 40), (1999, 12, 31, 23, 59, 59)]


def check_aware(row, off_min, wall):
    """A timezone-aware datetime denotes one instant: the class either refuses it or encodes exactly that instant
    (seconds since 1900-01-01 00:00 UTC); it never silently encodes the local wall-clock fields as if they were UTC."""
    cls = refdict.cls_obj(row["cls"])
    errors = common.lib_errors()
    tz = datetime.timezone(datetime.timedelta(minutes=off_min))
    dt = datetime.datetime(*wall, tzinfo=tz)
    try:
        obj = cls(dt)
        data = obj.data
    except (Exception,) + errors:
        return []
    want = int((dt - datetime.datetime(1900, 1, 1, tzinfo=datetime.timezone.utc)).total_seconds())
    if data != struct.pack(">I", want):
        return [V("a timezone-aware datetime is refused or encoded as the instant it denotes",
                  f"type-enforcement/Time/aware-datetime/{'utc' if off_min == 0 else 'offset'}/wrong-instant",
                  f"{row['cls']}({dt.isoformat()}) -> {data.hex()} want {want:#010x}")]
    return []


def check_mandatory_missing(row):
    """Grouped with one mandatory member left out (the others present)."""
    vs = []
    cls = refdict.cls_obj(row["cls"])
    errors = common.lib_errors()
    members = list(row.get("mandatory", {}).values())
    for skip in members:
        objs = [sample_obj(m) for m in members if m != skip]
        variants = [("list", objs), ("bytes", b"".join(o.dump() for o in objs))]
        if objs:
            # another mandatory member given twice does not stand in for the missing one
            dup = objs + [sample_obj(type(objs[0]).__name__)]
            variants += [("list+repeated-other", dup), ("bytes+repeated-other", b"".join(o.dump() for o in dup))]
        for form, val in variants:
            try:
                cls(val)
            except (Exception,) + errors:
                continue
            vs.append(V("Grouped AVP enforces its mandatory members", f"type-enforcement/Grouped/missing-mandatory/{form}",
                        f"{row['cls']} built without {skip}"))
    return vs


def sample_val(row):
    t = row["type"]
    if t == "Enumerated":
        return struct.pack(">I", row["values"][0])
    if t == "Integer32":
        return b"\x00\x00\x00\x01"
    if t in ("Unsigned32", "Unsigned64"):
        return 1
    if t == "Grouped":
        return [sample_obj(m) for m in row.get("mandatory", {}).values()]
    if t == "Address":
        return "10.0.0.1"
    if t == "Time":
        return datetime.datetime(2020, 1, 1)
    if t == "DiameterURI":
        return "aaa://host.example.com"
    return b"x"


def sample_obj(cls_name):
    return refdict.cls_obj(cls_name)(sample_val(refdict.by_cls(cls_name)))


# ---------------------------------------------------------------- (2) identity with in-domain values
def check_identity(node):
    row = refdict.by_cls(node["cls"])
    cls = refdict.cls_obj(node["cls"])
    errors = common.lib_errors()
    from bromelia.base import DiameterAVP
    try:
        obj = gens.build_node(node)
    except (Exception,) + errors as e:
        return "discard", f"in-domain construction refused: {type(e).__name__}", []
    vs = []
    ccode = int.from_bytes(cls.code, "big")
    cvendor = int.from_bytes(cls.vendor_id, "big") if cls.vendor_id else None
    if obj.get_code() != ccode or obj.get_vendor_id() != cvendor:
        vs.append(V("instance carries the class's code and vendor", f"identity/instance/{row['type']}",
                    f"{row['cls']}: instance ({obj.get_vendor_id()},{obj.get_code()}) class ({cvendor},{ccode})"))
    if obj.is_vendor_id() != (cvendor is not None):
        vs.append(V("V flag set exactly for vendor-specific classes", "identity/vflag", f"{row['cls']}: flags {obj.get_flags():#x}"))
    try:
        wire = obj.dump()
        dec = rc.dec_avps(wire)
    except rc.RefDecodeError as e:
        return "ok", None, vs + [V("in-domain value yields a well-formed encoding", f"wellformed/{row['type']}", f"{row['cls']}: {e}")]
    want = gens.ref_data(row["type"], row["cls"], node["v"])
    if len(dec) != 1 or dec[0]["data"] != want or dec[0]["code"] != row["code"] or dec[0]["vendor"] != row["vendor"]:
        vs.append(V("in-domain value yields a well-formed encoding of that value", f"encoding/{row['type']}/in={node['v']['t']}",
                    f"{row['cls']}: {wire.hex()[:80]}"))
    try:
        back = DiameterAVP.load(wire)
    except (Exception,) + errors as e:
        return "ok", None, vs + [V("decoding dispatches (vendor, code) to the class", f"dispatch-raises/{row['type']}/{type(e).__name__}", f"{row['cls']}: {e!r}")]
    if len(back) != 1 or type(back[0]) is not cls:
        vs.append(V("decoding dispatches (vendor, code) to the class", "dispatch/wrong-class",
                    f"{row['cls']} -> {[type(b).__name__ for b in back]}"))
    # the dictionary is keyed by the *pair*: the same code under another vendor presence is not this class
    other_vendor = None if row["vendor"] is not None else 99999
    if refdict.by_key(other_vendor, row["code"]) is None:
        flags = (row["flags"] & 0x7f) | (0x80 if other_vendor is not None else 0)
        alien = rc.enc_avp(row["code"], flags, other_vendor, want)
        try:
            back2 = DiameterAVP.load(alien)
            if len(back2) != 1 or type(back2[0]) is not DiameterAVP:
                vs.append(V("decoding dispatches by the (vendor, code) pair, not by the code alone", "dispatch/foreign-vendor-to-dictionary-class",
                            f"({other_vendor},{row['code']}) -> {[type(b).__name__ for b in back2]}"))
            elif back2[0].get_vendor_id() != other_vendor or back2[0].dump() != alien:
                vs.append(V("an unknown pair is kept as a generic AVP with its wire fields", "dispatch/foreign-vendor-altered", alien.hex()[:80]))
        except (Exception,) + errors as e:
            vs.append(V("decoding dispatches by the (vendor, code) pair, not by the code alone", f"dispatch/foreign-vendor-raises/{type(e).__name__}",
                        f"({other_vendor},{row['code']}): {e!r}"))
    return "ok", None, vs


# ---------------------------------------------------------------- (1) + (4) exhaustive tables
def check_tables():
    """-> (violations, notes, n_checked)"""
    classes = refdict.all_classes()
    from bromelia.base import DiameterAVP
    vs, notes = [], []
    subs = DiameterAVP.__subclasses__()
    groups = {}
    for c in subs:
        key = (int.from_bytes(c.vendor_id, "big") if c.vendor_id else None, int.from_bytes(c.code, "big"))
        groups.setdefault(key, []).append(c)
    for key, cs in sorted(groups.items(), key=lambda kv: (kv[0][0] or 0, kv[0][1])):
        if len(cs) > 1:
            descr = set()
            for c in cs:
                try:
                    flags = c(sample_val(refdict.by_cls(c.__name__))).get_flags() if c.__name__ in {r["cls"] for r in refdict.rows()} else None
                except BaseException:
                    flags = None
                descr.add((c.__name__, lib_type(c), flags))
            if len(descr) > 1:
                vs.append(V("no two different AVP definitions share a (Vendor-ID, code) pair", f"uniqueness/{key[0]}/{key[1]}",
                            f"{sorted(map(str, descr))}"))
            else:
                notes.append(f"{cs[0].__name__} is defined {len(cs)} times verbatim for {key}")
    ref_by_cls = {r["cls"]: r for r in refdict.rows()}
    # (4a) tree vs vendored dictionary
    for name, c in sorted(classes.items()):
        r = ref_by_cls.get(name)
        if r is None:
            vs.append(V("every dictionary class is in the published dictionary", f"published/unknown-class/{name}", c.__module__))
            continue
        code = int.from_bytes(c.code, "big")
        vendor = int.from_bytes(c.vendor_id, "big") if c.vendor_id else None
        if (vendor, code) != (r["vendor"], r["code"]):
            vs.append(V("wire identity matches the published dictionary", f"published/code/{name}", f"tree ({vendor},{code}) ref ({r['vendor']},{r['code']})"))
        if lib_type(c) != r["type"]:
            vs.append(V("data type matches the published dictionary", f"published/type/{name}", f"tree {lib_type(c)} ref {r['type']}"))
        try:
            flags = c(sample_val(r)).get_flags()
        except BaseException as e:
            vs.append(V("class can be instantiated with a canonical value", f"published/instantiate/{name}", repr(e)))
            continue
        if flags != r["flags"]:
            vs.append(V("default flags match the published dictionary", f"published/flags/{name}", f"tree {flags:#x} ref {r['flags']:#x}"))
        if r["type"] == "Enumerated":
            tv = sorted(int.from_bytes(v, "big") for v in c.values)
            if tv != sorted(r["values"]):
                vs.append(V("enumeration members match the published dictionary", f"published/values/{name}", f"{tv} vs {r['values']}"))
        if r["type"] == "Grouped":
            tm = {k: v.__name__ for k, v in c.mandatory.items()}
            if tm != r["mandatory"]:
                vs.append(V("mandatory members match the published dictionary", f"published/mandatory/{name}", f"{tm} vs {r['mandatory']}"))
    for name in ref_by_cls:
        if name not in classes:
            vs.append(V("every published AVP has a class", f"published/missing-class/{name}", ""))
    # (4b) vendored dictionary and tree vs docs/list-of-avps.md as it is now
    docs = {}
    with open(os.path.join(common.REPO, "docs", "list-of-avps.md")) as f:
        for line in f:
            m = re.match(r"\|(\d+)\|`([^`]+)`\|(\d+)\|(\w+)\|([^|]*)\|([^|]*)\|\[([^\]]+)\][^|]*\|(\w+)", line)
            if m:
                docs[m.group(8)] = dict(name=m.group(2), code=int(m.group(3)), type=m.group(4))
    for name, d in sorted(docs.items()):
        c = classes.get(name)
        if c is None:
            vs.append(V("every documented AVP has a class", f"docs/missing-class/{name}", ""))
            continue
        code = int.from_bytes(c.code, "big")
        if code != d["code"]:
            vs.append(V("AVP code matches docs/list-of-avps.md", f"docs/code/{name}", f"class {code} docs {d['code']}"))
        dt = "OctetString" if d["type"] == "IPFilterRule" else d["type"]
        if lib_type(c) != dt:
            vs.append(V("data type matches docs/list-of-avps.md", f"docs/type/{name}", f"class {lib_type(c)} docs {d['type']}"))
    # (4c) names of base (non-vendor) codes in bromelia/definitions.py
    from bromelia.definitions import diameter_avps
    defs = {d["id"]: d["name"] for d in diameter_avps}
    for name, c in sorted(classes.items()):
        if c.vendor_id:
            continue
        code = int.from_bytes(c.code, "big")
        doc = docs.get(name)
        if code in defs and doc and defs[code].replace("-", "").lower() != doc["name"].replace("-", "").lower():
            vs.append(V("AVP name matches bromelia/definitions.py", f"definitions/name/{name}", f"{defs[code]} vs {doc['name']}"))
    return vs, notes, len(classes) + len(docs) + len(groups)


def run_case(case):
    k = case["kind"]
    if k == "tables":
        return check_tables()[0]
    if k == "bad":
        row = refdict.by_cls(case["cls"])
        val = dict(bad_values(row)).get(case["value_kind"])
        return check_bad(row, case["value_kind"], val) + (check_bad_decode(row, case["value_kind"], val) if isinstance(val, bytes) else [])
    if k == "missing-mandatory":
        return check_mandatory_missing(refdict.by_cls(case["cls"]))
    if k == "aware":
        return check_aware(refdict.by_cls(case["cls"]), case["offset_min"], tuple(case["wall"]))
    if k == "identity":
        return check_identity(case["node"])[2]
    raise ValueError(case)


def _collect(shard, seed, n_in, of):
    common.bootstrap()
    refdict.all_classes()
    col = Collector(PID, RULE)
    for i, row in enumerate(refdict.rows()):
        if i % of != shard:
            continue
        for kind, val in bad_values(row):
            case = {"kind": "bad", "cls": row["cls"], "value_kind": kind, "value_repr": repr(val)[:60]}
            vs = check_bad(row, kind, val)
            if isinstance(val, bytes):
                vs = vs + check_bad_decode(row, kind, val)
            col.record(case, vs, nontrivial=True, classes=["out-of-domain", "type=" + row["type"]] + (["out-of-domain-on-the-wire"] if isinstance(val, bytes) else []))
        if row["type"] == "Time":
            for off in AWARE_OFFSETS:
                for wall in AWARE_INSTANTS:
                    case = {"kind": "aware", "cls": row["cls"], "offset_min": off, "wall": list(wall)}
                    col.record(case, check_aware(row, off, wall), nontrivial=True, classes=["aware-datetime", "type=Time"])
        if row["type"] == "Grouped" and row.get("mandatory"):
            case = {"kind": "missing-mandatory", "cls": row["cls"]}
            col.record(case, check_mandatory_missing(row), nontrivial=True, classes=["out-of-domain", "missing-mandatory"])

        def body(node, row=row):
            status, why, vs = check_identity(node)
            v = node["v"]
            boundary = (v["t"] == "i" and v["n"] in (0, 2**32 - 1, 2**63 - 1, 2**63, 2**64 - 1)) or (v["t"] == "b" and len(v["x"]) in (0, 134)) \
                or v["t"] in ("dt", "ip")
            col.record({"kind": "identity", "node": node}, vs, nontrivial=boundary and status == "ok",
                       classes=["in-domain", "type=" + row["type"]], discard=why)

        common.hyp_collect(gens.dict_node(row["cls"], 2, "unknown"), body, n_in, seed + i)
    return col


def main(ctx):
    n = 8 if ctx.quick else 16
    col = common.run_shards(_collect, n, ctx.seed, n_in=12 if ctx.quick else 400, of=n)
    vs, notes, n_checked = check_tables()
    col.record({"kind": "tables"}, vs, nontrivial=False, classes=["tables"])
    col.extra["table_rows_checked"] = n_checked
    col.extra["notes"] = notes
    col.extra["exhaustive_parts"] = "uniqueness of (vendor, code) over all subclasses; published identity of every class vs vendored dictionary, docs/list-of-avps.md, definitions.py; out-of-domain table per class"
    # dispatch from the first decode of a process on, also when two threads make it at the same time (fresh interpreter per scenario)
    list(common.first_use_sweep(col, "c02", "decoding dispatches each (vendor, code) to its class - from the first decode of the process, in every thread"))
    for path, rec in common.load_replays(PID):
        col.record(rec["case"], run_case(rec["case"]), nontrivial=True, classes=["replay"])
    ctx.required_classes = ["first-use-parked-mid-call", "out-of-domain", "out-of-domain-on-the-wire", "in-domain", "missing-mandatory", "tables", "aware-datetime"] + ["type=" + t for t in TYPE_NAMES]
    ctx.assumptions = ["domains per data type as tabled in DESIGN C10 / bad_values(); ints for Address and bools are not judged; "
                       "Address families other than 1/2 are not judged; IPFilterRule is accepted as OctetString"]
    return col

"""Harness-owned scheduler, virtual clock and shim modules (threading, queue, time,
selectors, socket) substituted into bromelia's modules.

Every thread bromelia creates is a real OS thread that only runs while it holds
the baton.  Every shim operation (and, optionally, every source line of
bromelia's modules) is a scheduling point at which the running thread itself
executes the scheduling decision: continue, or hand the baton to another
enabled thread.  Decisions come from a recorded list of small integers (index
into the enabled list, current thread first, so 0 = do not switch) followed by
a fair least-recently-run policy.  Time is virtual: it advances by a small
epsilon per step and jumps to the earliest deadline when nothing is enabled.
"""
import collections
import errno
import queue as _real_queue
import selectors as _real_selectors
import socket as _real_socket
import sys
import threading as _rt
import types

EPS = 2e-5


class Killed(BaseException):
    """raised inside controlled threads at teardown"""


class HarnessError(Exception):
    pass


class SpinDetected(BaseException):
    """raised inside a controlled thread that executes a very long stretch of library code without ever reaching a
    scheduling point (a busy loop with no blocking call): under the baton discipline nobody else could ever run"""


SPIN_LIMIT = 3_000_000          # loop back-edges / function entries in bromelia code within one scheduling quantum
_SPIN = {"installed": False, "sched": None}
SPIN_TOOL_ID = 5


def _install_spin_monitor(prefix):
    if _SPIN["installed"] or not hasattr(sys, "monitoring"):
        return
    mon = sys.monitoring
    try:
        mon.use_tool_id(SPIN_TOOL_ID, "verif-spin")
    except ValueError:
        return

    def on_jump(code, *a):
        if not code.co_filename.startswith(prefix):
            return mon.DISABLE
        s = _SPIN["sched"]
        if s is None or s.in_sched or s.killing:
            return
        cur = s.current
        if cur is None or cur.real is not _rt.current_thread():
            return
        s.quantum += 1
        if s.quantum > SPIN_LIMIT:
            s.quantum = 0
            s.spins.append(cur.name)
            raise SpinDetected(f"{cur.name} executed {SPIN_LIMIT} jumps in {code.co_name} without reaching a scheduling point")

    mon.register_callback(SPIN_TOOL_ID, mon.events.JUMP, on_jump)
    mon.set_events(SPIN_TOOL_ID, mon.events.JUMP)
    _SPIN["installed"] = True


def _hold_names(spec, name):
    """a hold names its thread exactly, by prefix ("recv_answer*") or by exclusion ("!caller,network": any thread whose name starts
    with none of these - e.g. whatever threads the library itself starts, under whatever name)"""
    if spec == name:
        return True
    if spec.endswith("*"):
        return name.startswith(spec[:-1])
    if spec.startswith("!"):
        return not any(name.startswith(p) for p in spec[1:].split(","))
    return False


class CT:
    __slots__ = ("id", "name", "sem", "state", "pred", "deadline", "wake", "real", "exc", "last_run", "steps", "blocked_on", "daemon")

    def __init__(self, id_, name):
        self.id = id_
        self.name = name
        self.sem = _rt.Semaphore(0)
        self.state = "runnable"          # runnable | blocked | finished
        self.pred = None
        self.deadline = None
        self.wake = "ok"
        self.real = None
        self.exc = None
        self.last_run = 0
        self.steps = 0
        self.blocked_on = None
        self.daemon = False

    def __repr__(self):
        return f"<CT {self.id} {self.name} {self.state} on={self.blocked_on}>"


SLOW_VISITS = 60


class Scheduler:
    def __init__(self, choices=None, line_preempt=False, trace_prefix=None, max_steps=400000, line_holds=False):
        self.now = 0.0
        self.threads = []
        self.current = None
        self.choices = list(choices or [])
        self.choice_i = 0
        self.killing = False
        self.steps = 0
        self.max_steps = max_steps
        self.line_preempt = line_preempt
        # line_holds: source lines of the library are also scheduling points of kind "line:<function name>", so that a targeted
        # hold() can delay a thread at its n-th line inside a named function (no random preemption is taken there)
        self.line_holds = line_holds
        self.trace_prefix = trace_prefix
        self.switches = 0
        self.line_switches = 0          # context switches taken at a non-synchronisation (source line) point
        self.switch_pairs = set()
        self.log = collections.deque(maxlen=400)
        self.driver = None
        self.deadlocked = False
        self.overrun = False
        self.in_sched = False       # true while scheduler code runs (predicates may execute traced bromelia code)
        # targeted preemption: [thread name, point kind, nth visit, release predicate, max virtual delay, visits so far]
        self.holds = []
        self.holds_taken = 0
        self.visits = {}            # (thread name, point kind) -> number of visits so far
        self.hold_log = []          # (virtual time, thread, kind, (function, line)) of every hold taken
        self.step_hook = None       # optional observer called at every scheduling point (must not block or schedule)
        self.quantum = 0            # library jumps executed since the last scheduling point (spin detection)
        self.spins = []
        if trace_prefix:
            _install_spin_monitor(trace_prefix if trace_prefix.endswith("/") else trace_prefix.rsplit("/", 1)[0] + "/")
        _SPIN["sched"] = self

    # ------------------------------------------------------------------ threads
    def register_driver(self, name="driver"):
        ct = CT(0, name)
        ct.real = _rt.current_thread()
        self.threads.append(ct)
        self.current = ct
        self.driver = ct
        return ct

    def spawn(self, target, name="thread", daemon=False):
        ct = CT(len(self.threads), name)
        ct.daemon = daemon
        self.threads.append(ct)
        ct.real = _rt.Thread(target=self._boot, args=(ct, target), name="ctl-" + name, daemon=True)
        ct.real.start()
        return ct

    def _boot(self, ct, target):
        ct.sem.acquire()                  # wait for the baton
        try:
            if not self.killing:
                if self.line_preempt or self.line_holds:
                    sys.settrace(self._tracer)
                target()
                if not self.killing:
                    # the function has returned but the thread is not gone yet (is_alive() is still true): a scheduling point of its
                    # own, so that a hold can keep a thread in that state while others look at it
                    sys.settrace(None)
                    self.point("thread.exit")
        except Killed:
            pass
        except BaseException as e:        # library errors derive from BaseException
            ct.exc = e
        finally:
            sys.settrace(None)
            ct.state = "finished"
            ct.pred = None
            ct.deadline = None
            self._handoff_from_finished(ct)

    def _tracer(self, frame, event, arg):
        if frame.f_code.co_filename.startswith(self.trace_prefix):
            return self._line
        return None

    def _line(self, frame, event, arg):
        if event == "line" and not self.in_sched and not self.killing:
            if self.line_holds and self.holds:
                kind = "line:" + frame.f_code.co_name
                cur = self.current
                if cur is not None and any(h[1] == kind and _hold_names(h[0], cur.name) for h in self.holds):
                    self.point(kind, line=(frame.f_code.co_name, frame.f_lineno))
                    return self._line
                if cur is not None and any(h[1] == "line:*" and _hold_names(h[0], cur.name) for h in self.holds):
                    # any source line of the library executed by that thread
                    self.point("line:*", line=(frame.f_code.co_name, frame.f_lineno))
                    return self._line
            if self.line_preempt and self.choice_i < len(self.choices):
                self.point("line", line=(frame.f_code.co_name, frame.f_lineno))
        return self._line

    # ------------------------------------------------------------------ core
    def me(self):
        cur = self.current
        if cur is None or cur.real is not _rt.current_thread():
            raise HarnessError(f"scheduling point reached by a thread that does not hold the baton: {_rt.current_thread().name}")
        return cur

    def _enabled(self):
        out = []
        for t in self.threads:
            if t.state == "finished":
                continue
            if t.pred is None:
                out.append(t)
            else:
                try:
                    ok = t.pred()
                except Exception:
                    ok = False
                if ok or (t.deadline is not None and t.deadline <= self.now):
                    out.append(t)
        return out

    def _pick(self, cur):
        en = self._enabled()
        if not en:
            # nobody can run now: jump the clock to the earliest deadline
            pend = [t for t in self.threads if t.state != "finished" and t.deadline is not None]
            others = [t for t in pend if t is not self.driver]
            if not pend:
                self.deadlocked = True
                raise HarnessError("deadlock with no driver deadline (driver must always wait with a horizon)")
            if not others and self.driver in pend:
                # every library thread is finished or blocked forever: the system is quiescent
                self.driver.wake = "quiescent"
                self.driver.deadline = self.now
                return self.driver
            self.now = max(self.now, min(t.deadline for t in (others or pend)))
            en = self._enabled()
        if self.choice_i < len(self.choices):
            # generated prefix: index into the enabled list, current thread first
            if cur in en:
                en = [cur] + [t for t in en if t is not cur]
            idx = self.choices[self.choice_i] % len(en)
            self.choice_i += 1
            return en[idx]
        # fair completion: least recently run
        return min(en, key=lambda t: (t.last_run, t.id))

    def point(self, kind, pred=None, timeout=None, line=None):
        """Scheduling point of the running thread.  Returns 'ok' | 'timeout' | 'quiescent'."""
        cur = self.me()
        if self.killing and cur is not self.driver:
            raise Killed()
        if self.in_sched:
            raise HarnessError("re-entrant scheduling point")
        self.in_sched = True
        try:
            return self._point(cur, kind, pred, timeout, line)
        finally:
            self.in_sched = False

    def _point(self, cur, kind, pred, timeout, line):
        self.quantum = 0
        self.visits[(cur.name, kind)] = self.visits.get((cur.name, kind), 0) + 1
        if self.step_hook is not None and not self.killing:
            self.step_hook(cur, kind)
        if self.holds and not self.killing and not kind.startswith("held:"):
            for h in self.holds:
                if _hold_names(h[0], cur.name) and h[1] == kind:
                    h[5] += 1
                    # nth == 0: at every visit ("slow motion" at that kind of point) - the first SLOW_VISITS ones only, so that the
                    # total delay stays far below the checks' liveness horizons (a slow thread is not a stuck thread)
                    if h[5] == h[2] or (h[2] == 0 and h[5] <= SLOW_VISITS):
                        # the thread is simply not scheduled until the release predicate holds (or max delay passes)
                        self.holds_taken += 1
                        self.hold_log.append((round(self.now, 4), cur.name, kind, line))
                        rel = h[3]
                        if isinstance(rel, tuple):
                            # ("until", thread, kind): released once that thread has passed a point of that kind again
                            _, ut, uk = rel
                            base = self.visits.get((ut, uk), 0)
                            rel = (lambda ut=ut, uk=uk, base=base: self.visits.get((ut, uk), 0) > base)
                        self._point(cur, "held:" + kind, rel, h[4], None)
                        break
        self.steps += 1
        cur.steps += 1
        self.now += EPS
        if self.steps > self.max_steps and not self.overrun:
            self.overrun = True
        cur.pred = pred
        cur.deadline = (self.now + timeout) if (pred is not None and timeout is not None) else None
        cur.state = "blocked" if pred is not None else "runnable"
        cur.blocked_on = kind if pred is not None else None
        nxt = self._pick(cur)
        if nxt is not cur:
            self.switches += 1
            if kind.startswith("line"):
                self.line_switches += 1
                self.switch_pairs.add((cur.name, line))
            self.log.append((self.steps, cur.name, kind, "->", nxt.name))
        self._resume_prepare(nxt)
        if nxt is cur:
            return cur.wake
        self.current = nxt
        self.in_sched = False
        nxt.sem.release()
        cur.sem.acquire()
        self.in_sched = True
        self.quantum = 0
        if self.killing and cur is not self.driver:
            raise Killed()
        return cur.wake

    def _resume_prepare(self, t):
        if t.wake != "quiescent" or t is not self.driver:
            ok = True
            if t.pred is not None:
                try:
                    ok = bool(t.pred())
                except Exception:
                    ok = False
            t.wake = "ok" if ok else "timeout"
        t.pred = None
        t.deadline = None
        t.state = "runnable"
        t.blocked_on = None
        t.last_run = self.steps

    def _handoff_from_finished(self, ct):
        """called by a thread that has just finished: pass the baton on and let the OS thread end"""
        if self.killing:
            self.current = self.driver
            self.driver.sem.release()
            return
        if self.current is not ct:
            return
        self.in_sched = True
        try:
            nxt = self._pick(ct)
        except HarnessError:
            nxt = self.driver
            nxt.wake = "quiescent"
        self._resume_prepare(nxt)
        self.current = nxt
        self.in_sched = False
        nxt.sem.release()

    # ------------------------------------------------------------------ driver helpers
    def hold(self, thread_name, kind, nth, release_pred, max_delay=5.0):
        self.holds.append([thread_name, kind, nth, release_pred, max_delay, 0])

    def run_until(self, pred, horizon):
        """driver: let the system run until pred() holds, or nothing can ever run again, or `horizon`
        virtual seconds passed.  -> 'ok' | 'quiescent' | 'timeout'"""
        self.driver.wake = "ok"
        return self.point("driver", pred=pred, timeout=horizon)

    def live_threads(self):
        return [t for t in self.threads if t is not self.driver and t.state != "finished"]

    def kill_all(self):
        """teardown: every controlled thread gets Killed at its next scheduling point"""
        self.killing = True
        self.choices = []
        for _ in range(50):
            live = self.live_threads()
            if not live:
                break
            for t in live:
                if t.state == "finished":
                    continue
                self.current = t
                t.pred = None
                t.deadline = None
                t.sem.release()
                # wait until it either finishes or blocks again at a point (it raises Killed there and unwinds)
                self.driver.sem.acquire(timeout=5)
        self.current = self.driver
        for t in self.threads:
            if t is not self.driver and t.real is not None:
                t.real.join(timeout=2)
        return [t for t in self.threads if t is not self.driver and t.real.is_alive()]


# ====================================================================== shims
class ShimLock:
    def __init__(self, sched, name="lock"):
        self._s = sched
        self._locked = False
        self._owner = None
        self.name = name
        self.history = collections.deque(maxlen=16)

    def acquire(self, blocking=True, timeout=-1):
        s = self._s
        if not blocking:
            s.point("lock.try")
            if self._locked:
                return False
        else:
            r = s.point("lock.acquire", pred=lambda: not self._locked, timeout=None if timeout is None or timeout < 0 else timeout)
            if r != "ok":
                self.history.append(("acq-failed:" + str(r), s.current.name, s.steps))
                return False
        if self._locked:
            raise HarnessError(f"lock granted while held: {list(self.history)[-6:]} log={list(s.log)[-6:]}")
        self._locked = True
        self._owner = s.current
        self.history.append(("acq", s.current.name, s.steps))
        return True

    def release(self):
        self._s.point("lock.release")
        self.history.append(("rel", self._s.current.name, self._s.steps))
        if not self._locked:
            raise RuntimeError(f"release unlocked lock; history {list(self.history)[-8:]}")
        self._locked = False
        self._owner = None
        # a second point right after the unlock: "delayed just after leaving the critical section" is where
        # check-then-act races manifest, and targeted holds can name it
        self._s.point("lock.released")

    def locked(self):
        return self._locked

    def __enter__(self):
        self.acquire()
        return self

    def __exit__(self, *a):
        self.release()


class ShimEvent:
    def __init__(self, sched):
        self._s = sched
        self._flag = False

    def is_set(self):
        return self._flag

    isSet = is_set

    def set(self):
        self._s.point("event.set")
        self._flag = True

    def clear(self):
        self._s.point("event.clear")
        self._flag = False

    def wait(self, timeout=None):
        self._s.point("event.wait", pred=lambda: self._flag, timeout=timeout)
        return self._flag


class BrokenBarrierError(RuntimeError):
    pass


class ShimBarrier:
    def __init__(self, sched, parties, action=None, timeout=None):
        self._s = sched
        self.parties = parties
        self._count = 0
        self._gen = 0
        self._broken = False

    def wait(self, timeout=None):
        s = self._s
        s.point("barrier.arrive")
        if self._broken:
            raise BrokenBarrierError()
        gen = self._gen
        self._count += 1
        if self._count == self.parties:
            self._count = 0
            self._gen += 1
            return 0
        r = s.point("barrier.wait", pred=lambda: self._gen != gen or self._broken, timeout=timeout)
        if r != "ok":
            self._broken = True
            raise BrokenBarrierError()
        if self._broken and self._gen == gen:
            raise BrokenBarrierError()
        return 1

    def reset(self):
        self._s.point("barrier.reset")
        self._count = 0
        self._gen += 1
        self._broken = False

    @property
    def broken(self):
        return self._broken


class ShimThread:
    def __init__(self, sched, group=None, target=None, name=None, args=(), kwargs=None, daemon=None):
        self._s = sched
        self._target = target
        self._args = args
        self._kwargs = kwargs or {}
        self.name = name or "Thread"
        self.daemon = bool(daemon)
        self._ct = None

    def start(self):
        self._s.point("thread.start")
        self._ct = self._s.spawn(lambda: self._target(*self._args, **self._kwargs), self.name, self.daemon)

    def join(self, timeout=None):
        if self._ct is None:
            raise RuntimeError("cannot join thread before it is started")
        self._s.point("thread.join", pred=lambda: self._ct.state == "finished", timeout=timeout)

    def is_alive(self):
        return self._ct is not None and self._ct.state != "finished"


class ShimQueue:
    def __init__(self, sched, maxsize=0):
        self._s = sched
        self._d = collections.deque()

    @property
    def queue(self):
        return self._d

    def put(self, item, block=True, timeout=None):
        self._s.point("queue.put")
        self._d.append(item)

    put_nowait = put

    def get(self, block=True, timeout=None):
        if not block:
            self._s.point("queue.get_nowait")
            if not self._d:
                raise _real_queue.Empty()
            return self._d.popleft()
        r = self._s.point("queue.get", pred=lambda: bool(self._d), timeout=timeout)
        if r != "ok" or not self._d:
            raise _real_queue.Empty()
        return self._d.popleft()

    def get_nowait(self):
        return self.get(block=False)

    def empty(self):
        self._s.point("queue.empty")
        return not self._d

    def qsize(self):
        self._s.point("queue.qsize")
        return len(self._d)

    def full(self):
        return False

    def task_done(self):
        pass

    def join(self):
        pass


class ShimRLock:
    def __init__(self, sched):
        self._s = sched
        self._owner = None
        self._depth = 0

    def acquire(self, blocking=True, timeout=-1):
        s = self._s
        me = s.current
        if self._owner is me:
            self._depth += 1
            return True
        if not blocking:
            s.point("lock.try")
            if self._owner is not None:
                return False
        else:
            r = s.point("lock.acquire", pred=lambda: self._owner is None, timeout=None if timeout is None or timeout < 0 else timeout)
            if r != "ok":
                return False
        self._owner, self._depth = s.current, 1
        return True

    def release(self):
        self._s.point("lock.release")
        if self._owner is not self._s.current:
            raise RuntimeError("cannot release un-acquired lock")
        self._depth -= 1
        if self._depth == 0:
            self._owner = None
            self._s.point("lock.released")

    def locked(self):
        return self._owner is not None

    def __enter__(self):
        self.acquire()
        return self

    def __exit__(self, *a):
        self.release()


class ShimSemaphore:
    def __init__(self, sched, value=1, bound=None):
        if value < 0:
            raise ValueError("semaphore initial value must be >= 0")
        self._s = sched
        self._value = value
        self._bound = bound

    def acquire(self, blocking=True, timeout=None):
        s = self._s
        if not blocking:
            s.point("sem.try")
            if self._value <= 0:
                return False
        else:
            r = s.point("sem.acquire", pred=lambda: self._value > 0, timeout=timeout)
            if r != "ok" or self._value <= 0:
                return False
        self._value -= 1
        return True

    def release(self, n=1):
        self._s.point("sem.release")
        if self._bound is not None and self._value + n > self._bound:
            raise ValueError("Semaphore released too many times")
        self._value += n

    def __enter__(self):
        self.acquire()
        return self

    def __exit__(self, *a):
        self.release()


class ShimCondition:
    def __init__(self, sched, lock=None):
        self._s = sched
        self._lock = lock if lock is not None else ShimRLock(sched)
        self._gen = 0          # notify_all generation
        self._tickets = 0      # single notifications not yet consumed
        self.acquire = self._lock.acquire
        self.release = self._lock.release

    def __enter__(self):
        self._lock.acquire()
        return self

    def __exit__(self, *a):
        self._lock.release()

    def wait(self, timeout=None):
        s = self._s
        gen = self._gen
        depth = getattr(self._lock, "_depth", 1)
        for _ in range(depth if isinstance(self._lock, ShimRLock) else 1):
            self._lock.release()
        r = s.point("cond.wait", pred=lambda: self._gen != gen or self._tickets > 0, timeout=timeout)
        ok = r == "ok" and (self._gen != gen or self._tickets > 0)
        if ok and self._gen == gen:
            self._tickets -= 1
        for _ in range(depth if isinstance(self._lock, ShimRLock) else 1):
            self._lock.acquire()
        return ok

    def wait_for(self, predicate, timeout=None):
        end = None if timeout is None else self._s.now + timeout
        result = predicate()
        while not result:
            left = None if end is None else end - self._s.now
            if left is not None and left <= 0:
                break
            self.wait(left)
            result = predicate()
        return result

    def notify(self, n=1):
        self._s.point("cond.notify")
        self._tickets += n

    def notify_all(self):
        self._s.point("cond.notify")
        self._gen += 1
        self._tickets = 0

    notifyAll = notify_all


class ShimTimer(ShimThread):
    def __init__(self, sched, interval, function, args=None, kwargs=None):
        self._cancelled = ShimEvent(sched)
        a, k = args or (), kwargs or {}

        def run():
            self._cancelled.wait(interval)
            if not self._cancelled.is_set():
                function(*a, **k)
        ShimThread.__init__(self, sched, target=run, name="Timer", daemon=True)

    def cancel(self):
        self._cancelled.set()


class ShimLocal:
    """threading.local for controlled threads: one namespace per controlled thread"""
    def __init__(self, sched):
        object.__setattr__(self, "_s", sched)
        object.__setattr__(self, "_d", {})

    def _ns(self):
        return self._d.setdefault(id(self._s.current), {})

    def __getattr__(self, k):
        try:
            return self._ns()[k]
        except KeyError:
            raise AttributeError(k)

    def __setattr__(self, k, v):
        self._ns()[k] = v

    def __delattr__(self, k):
        try:
            del self._ns()[k]
        except KeyError:
            raise AttributeError(k)


class ShimLifoQueue(ShimQueue):
    def get(self, block=True, timeout=None):
        if not block:
            self._s.point("queue.get_nowait")
            if not self._d:
                raise _real_queue.Empty()
            return self._d.pop()
        r = self._s.point("queue.get", pred=lambda: bool(self._d), timeout=timeout)
        if r != "ok" or not self._d:
            raise _real_queue.Empty()
        return self._d.pop()


def make_threading(sched):
    """stands in for the `threading` module inside the library: every primitive the module offers exists here in a scheduler-aware
    form, so that a change of the library from one primitive to another is judged by the checks instead of breaking the harness"""
    ns = types.SimpleNamespace()
    ns.Thread = lambda *a, **k: ShimThread(sched, *a, **k)
    ns.Lock = lambda: ShimLock(sched)
    ns.RLock = lambda: ShimRLock(sched)
    ns.Event = lambda: ShimEvent(sched)
    ns.Semaphore = lambda value=1: ShimSemaphore(sched, value)
    ns.BoundedSemaphore = lambda value=1: ShimSemaphore(sched, value, bound=value)
    ns.Condition = lambda lock=None: ShimCondition(sched, lock)
    ns.Timer = lambda interval, function, args=None, kwargs=None: ShimTimer(sched, interval, function, args, kwargs)
    ns.local = lambda: ShimLocal(sched)
    ns.Barrier = lambda parties, action=None, timeout=None: ShimBarrier(sched, parties, action, timeout)
    ns.BrokenBarrierError = BrokenBarrierError
    ns.current_thread = lambda: types.SimpleNamespace(name=sched.current.name if sched.current else "?", ident=id(sched.current),
                                                      daemon=bool(getattr(sched.current, "daemon", False)), is_alive=lambda: True)
    ns.main_thread = lambda: types.SimpleNamespace(name="MainThread", ident=0, daemon=False, is_alive=lambda: True)
    ns.get_ident = lambda: id(sched.current)
    ns.get_native_id = lambda: id(sched.current)
    ns.active_count = lambda: len([t for t in sched.threads if t.state != "finished"])
    ns.enumerate = lambda: [types.SimpleNamespace(name=t.name, daemon=bool(t.daemon), is_alive=lambda: True) for t in sched.threads if t.state != "finished"]
    ns.TIMEOUT_MAX = _rt.TIMEOUT_MAX
    ns.ThreadError = RuntimeError
    return ns


def make_queue(sched):
    ns = types.SimpleNamespace()
    ns.Queue = lambda maxsize=0: ShimQueue(sched, maxsize)
    ns.SimpleQueue = lambda: ShimQueue(sched, 0)
    ns.LifoQueue = lambda maxsize=0: ShimLifoQueue(sched, maxsize)
    ns.Empty = _real_queue.Empty
    ns.Full = _real_queue.Full
    return ns


def make_time(sched, epoch=1_700_000_000.0):
    ns = types.SimpleNamespace()

    def sleep(d):
        sched.point("sleep", pred=lambda: False, timeout=max(0.0, d))
    ns.sleep = sleep
    ns.time = lambda: epoch + sched.now
    ns.monotonic = lambda: sched.now
    ns.perf_counter = lambda: sched.now
    ns.time_ns = lambda: int((epoch + sched.now) * 1e9)
    ns.monotonic_ns = lambda: int(sched.now * 1e9)
    ns.perf_counter_ns = lambda: int(sched.now * 1e9)
    import time as _real_time
    for name in ("gmtime", "localtime", "strftime", "struct_time", "mktime", "ctime", "asctime", "process_time", "thread_time"):
        setattr(ns, name, getattr(_real_time, name))
    return ns


# ---------------------------------------------------------------------- network
class FakeSock:
    """One end (the node's) of a TCP connection, or a listening socket."""
    _next_fd = [1000]

    def __init__(self, net, kind="stream"):
        self.net = net
        self._s = net.sched
        self.kind = kind                # stream | listen
        self.fd = FakeSock._next_fd[0]
        FakeSock._next_fd[0] += 1
        self.state = "new"              # new | connecting | connected | refused | closed
        self.inbox = collections.deque()    # segments the peer has sent, not yet read
        self.peer_closed = False        # FIN received
        self.reset = False              # RST received
        self.outbox = bytearray()       # everything accepted by send()
        self.send_calls = []            # (offered, accepted)
        self.write_sizes = collections.deque()   # partial-write pattern (max bytes accepted per send call)
        self.pending_error = None
        self.error_taken = False
        self.fin_sent_once = False
        self.dropped = bytearray()
        self.closed = False
        self.backlog = collections.deque()       # listen: pending connections (FakeSock)
        self.addr = None
        self.recv_calls = 0
        net.socks.append(self)

    # --- socket API used by bromelia.transport
    def setblocking(self, flag):
        pass

    def setsockopt(self, *a):
        pass

    def fileno(self):
        return self.fd

    def bind(self, addr):
        self.addr = addr

    def listen(self, *a):
        self.kind = "listen"
        self.state = "listening"
        self.net.listeners.append(self)

    def accept(self):
        self._s.point("sock.accept")
        if not self.backlog:
            raise BlockingIOError(errno.EAGAIN, "Resource temporarily unavailable")
        c = self.backlog.popleft()
        return c, ("198.51.100.7", 40000)

    def connect_ex(self, addr):
        self._s.point("sock.connect")
        self.addr = addr
        self.state = "connecting"
        self.net.on_connect(self)
        return errno.EINPROGRESS

    def _take_error(self):
        """pending socket error (ECONNREFUSED / ECONNRESET / ETIMEDOUT / EHOSTUNREACH) is reported once, to whichever call comes first"""
        if self.pending_error is not None:
            e, self.pending_error = self.pending_error, None
            self.error_taken = True
            if e == errno.ECONNREFUSED:
                raise ConnectionRefusedError(e, "Connection refused")
            if e == errno.ETIMEDOUT:
                raise TimeoutError(e, "Connection timed out")
            if e == errno.EHOSTUNREACH:
                raise OSError(e, "No route to host")
            raise ConnectionResetError(e, "Connection reset by peer")

    def send(self, data):
        self._s.point("sock.send")
        if self.closed:
            raise OSError(errno.EBADF, "Bad file descriptor")
        if self.state == "connecting":
            raise BlockingIOError(errno.EAGAIN, "Resource temporarily unavailable")
        self._take_error()
        if self.state == "refused" or self.reset or self.fin_sent_once:
            raise BrokenPipeError(errno.EPIPE, "Broken pipe")
        if self.state != "connected":
            raise OSError(errno.ENOTCONN, "Transport endpoint is not connected")
        if not data:
            self.send_calls.append((0, 0))
            return 0
        n = len(data)
        if self.write_sizes:
            n = max(1, min(n, self.write_sizes.popleft()))
        if self.peer_closed:
            # the first write after the peer's FIN is accepted by the kernel and answered with RST
            self.fin_sent_once = True
            self.dropped += data[:n]
            return n
        self.outbox += data[:n]
        self.send_calls.append((len(data), n))
        self.net.on_sent(self, bytes(data[:n]))
        return n

    def recv(self, bufsize):
        self._s.point("sock.recv")
        self.recv_calls += 1
        if self.closed:
            raise OSError(errno.EBADF, "Bad file descriptor")
        if self.state == "connecting":
            raise BlockingIOError(errno.EAGAIN, "Resource temporarily unavailable")
        self._take_error()
        if self.state == "refused" or self.reset:
            return b""
        if self.inbox:
            seg = self.inbox.popleft()
            if len(seg) > bufsize:
                self.inbox.appendleft(seg[bufsize:])
                seg = seg[:bufsize]
            self.net.on_read(self, seg)
            return seg
        if self.peer_closed:
            return b""
        raise BlockingIOError(errno.EAGAIN, "Resource temporarily unavailable")

    def close(self):
        self._s.point("sock.close")
        self.closed = True
        self.state = "closed"

    # --- readiness as a selector sees it
    def readable(self):
        if self.closed:
            return False
        if self.kind == "listen":
            return bool(self.backlog)
        return bool(self.inbox) or self.peer_closed or self.reset or self.state == "refused"

    def writable(self):
        if self.closed or self.kind == "listen":
            return False
        return self.state in ("connected", "refused") or self.reset


class Net:
    """The harness side of the network: created sockets, pending connects."""
    def __init__(self, sched):
        self.sched = sched
        self.socks = []
        self.listeners = []
        self.selectors = []
        self.connect_policy = "manual"       # manual | ack | nack
        self.pending_connects = []
        self.sent_log = []                   # (sock, bytes) in send order
        self.read_log = []

    def on_connect(self, sock):
        if self.connect_policy == "ack":
            sock.state = "connected"
        elif self.connect_policy == "nack":
            self.nack(sock)
        else:
            self.pending_connects.append(sock)

    def on_sent(self, sock, data):
        self.sent_log.append((sock, data))

    def on_read(self, sock, data):
        self.read_log.append((sock, data))

    # peer-side actions (called by the driver / world)
    def ack(self, sock):
        sock.state = "connected"

    def nack(self, sock):
        sock.state = "refused"
        sock.pending_error = errno.ECONNREFUSED

    def peer_fin(self, sock):
        sock.peer_closed = True

    def peer_rst(self, sock):
        sock.reset = True
        sock.inbox.clear()
        sock.pending_error = errno.ECONNRESET

    def peer_vanishes(self, sock, err):
        """the peer host silently disappears: the kernel eventually reports ETIMEDOUT (retransmission timeout) or
        EHOSTUNREACH on the established connection; afterwards the socket behaves like a reset one"""
        sock.reset = True
        sock.inbox.clear()
        sock.pending_error = err

    def peer_connect(self, listener):
        c = FakeSock(self)
        c.state = "connected"
        listener.backlog.append(c)
        return c


class FakeSelector:
    def __init__(self, net):
        self.net = net
        self._s = net.sched
        self._map = {}
        self.closed = False
        net.selectors.append(self)

    def register(self, fileobj, events, data=None):
        self._s.point("selector.register")
        if fileobj in self._map:
            raise KeyError(f"{fileobj!r} is already registered")
        key = _real_selectors.SelectorKey(fileobj, fileobj.fileno(), events, data)
        self._map[fileobj] = key
        return key

    def unregister(self, fileobj):
        self._s.point("selector.unregister")
        return self._map.pop(fileobj)          # KeyError when absent, like the stdlib

    def modify(self, fileobj, events, data=None):
        self._s.point("selector.modify")
        if fileobj not in self._map:
            raise KeyError(f"{fileobj!r} is not registered")
        key = _real_selectors.SelectorKey(fileobj, fileobj.fileno(), events, data)
        self._map[fileobj] = key
        return key

    def get_map(self):
        return dict(self._map)

    def get_key(self, fileobj):
        return self._map[fileobj]

    def _ready(self):
        out = []
        for sock, key in list(self._map.items()):
            mask = 0
            if key.events & _real_selectors.EVENT_READ and sock.readable():
                mask |= _real_selectors.EVENT_READ
            if key.events & _real_selectors.EVENT_WRITE and sock.writable():
                mask |= _real_selectors.EVENT_WRITE
            if mask:
                out.append((key, mask))
        return out

    def select(self, timeout=None):
        self._s.point("selector.select", pred=lambda: bool(self._ready()), timeout=timeout)
        return self._ready()

    def close(self):
        self.closed = True
        self._map.clear()


def make_selectors(net):
    ns = types.SimpleNamespace()
    ns.DefaultSelector = lambda: FakeSelector(net)
    ns.EVENT_READ = _real_selectors.EVENT_READ
    ns.EVENT_WRITE = _real_selectors.EVENT_WRITE
    ns.SelectorKey = _real_selectors.SelectorKey
    return ns


def make_socket(net):
    ns = types.SimpleNamespace()
    ns.socket = lambda family=None, type=None, *a: FakeSock(net)
    for name in ("AF_INET", "AF_INET6", "SOCK_STREAM", "SOL_SOCKET", "SO_REUSEADDR", "IPPROTO_TCP"):
        setattr(ns, name, getattr(_real_socket, name))
    ns.error = OSError
    ns.getfqdn = _real_socket.getfqdn
    ns.gethostbyname = _real_socket.gethostbyname
    return ns


class Patch:
    """context manager substituting module-level names inside bromelia's modules"""
    def __init__(self, sched, net):
        self.sched = sched
        self.net = net
        self.saved = []

    def __enter__(self):
        import bromelia.transport as tr
        import bromelia.setup as su
        import bromelia.statemachine as sm
        import bromelia.bromelia as bb
        th = make_threading(self.sched)
        tm = make_time(self.sched)
        for mod, name, val in (
            (tr, "threading", th), (tr, "selectors", make_selectors(self.net)), (tr, "socket", make_socket(self.net)),
            (su, "threading", th), (su, "queue", make_queue(self.sched)), (su, "time", tm),
            (sm, "threading", th), (sm, "time", tm),
            (bb, "threading", th), (bb, "time", tm),
        ):
            self.saved.append((mod, name, getattr(mod, name)))
            setattr(mod, name, val)
        return self

    def __exit__(self, *a):
        for mod, name, val in reversed(self.saved):
            setattr(mod, name, val)
        return False

"""Hypothesis strategies producing JSON-friendly *logical content* (nodes),
plus build_* (-> bromelia objects) and ref_* (-> reference bytes).

node  := {"k":"dict","cls":NAME,"v":VAL}                          dictionary AVP
       | {"k":"gen","code":int,"vendor":int|None,"flags":int,"v":VAL}   generic DiameterAVP
VAL   := {"t":"b","x":hex} | {"t":"s","s":str} | {"t":"i","n":int} | {"t":"none"}
       | {"t":"dt","v":[Y,M,D,h,m,s,us]} | {"t":"ip","s":literal}
       | {"t":"l","items":[node...]}      Grouped from a list of AVP objects
       | {"t":"gb","items":[node...]}     Grouped from the bytes of its members
"""
import datetime

from hypothesis import strategies as st

from . import refcodec as rc
from . import refdict

BYTES_ONLY = {"SessionIdAVP", "AcctMultiSessionIdAVP", "MsisdnAVP", "StnSrAVP", "EapPayloadAVP"}
OCTET = {"OctetString", "UTF8String", "DiameterIdentity"}

T_MIN = datetime.datetime(1900, 1, 1)
T_MAX = datetime.datetime(2036, 2, 7, 6, 28, 15)


# ------------------------------------------------------------------ primitive strategies
def sized_bytes(max_len=67):
    return st.integers(0, max_len).flatmap(lambda n: st.binary(min_size=n, max_size=n))


def bval(b):
    return {"t": "b", "x": b.hex()}


# legal text that a "normalising" or "tidying" code path would change: decomposed accents, compatibility characters, a leading
# byte-order mark, ligatures, case-folding traps, non-breaking / zero-width / directional characters, trailing dots and blanks
TRICKY_TEXTS = ["Jose\u0301", "\u212b", "\uf900", "\u1112\u1161\u11ab", "\ufeffbom", "mid\ufeffbom", "e\u0301\u0327", "\ufb01", "\u0130", "\u00df", "\u200frtl",
                "a\u00a0b", "\u2126", "\u01c6", "zero\u200bwidth", "x\u0308", "\u1e9b\u0323", "host.example.", "UPPER.Example", " lead", "trail ", "tab\there",
                "a\u0000b", "%41", "a+b", "\U0001f600"]
tricky_text = st.sampled_from(TRICKY_TEXTS)

octets = st.one_of(st.sampled_from([0, 1, 127, 128, 255]), st.integers(0, 255))
_small = st.sampled_from([0, 1, 2, 3])
# addresses whose packed form starts like an Address family code (00 01 / 00 02 / 00 00 ...) are generated on purpose: code that
# recognises the family prefix by looking at the data must not mistake address octets for it
ipv4_lit = st.one_of(st.builds(lambda a, b, c, d: f"{a}.{b}.{c}.{d}", octets, octets, octets, octets),
                     st.builds(lambda a, b, c, d: f"{a}.{b}.{c}.{d}", octets, octets, octets, octets),
                     st.builds(lambda a, b, c, d: f"{a}.{b}.{c}.{d}", _small, _small, _small, _small),
                     st.builds(lambda a, b, c, d: f"{a}.{b}.{c}.{d}", _small, _small, octets, octets))
ipv6_lit = st.one_of(
    st.builds(lambda a, b, t: f"{a:x}:{b:x}::{t:x}", _small, _small, st.integers(0, 0xffff)),
    st.builds(lambda a, t: f"{a:x}::{t}", st.sampled_from([1, 2, 0x100, 0x200, 0x1000]), ipv4_lit_plain := st.builds(lambda a, b, c, d: f"{a}.{b}.{c}.{d}", _small, _small, octets, octets)),
    st.ip_addresses(v=6).map(str),
    st.ip_addresses(v=6).map(lambda a: a.exploded),
    st.sampled_from(["::", "::1", "ffff:ffff:ffff:ffff:ffff:ffff:ffff:ffff", "2001:db8::", "::ffff:1.2.3.4",
                     "fe80::1", "1::", "0:0:0:0:0:0:0:1", "2001:0db8:0000:0000:0000:ff00:0042:8329"]),
)

_label = st.text(alphabet="abcdefghijklmnopqrstuvwxyzABCDEFGHIJKLMNOPQRSTUVWXYZ123456789-_", min_size=1, max_size=10)


@st.composite
def uri_str(draw):
    # conservative subset of the library's own pattern (see types.DiameterURIType)
    scheme = draw(st.sampled_from(["aaa", "aaas"]))
    labels = draw(st.lists(_label, min_size=2, max_size=4))
    host = ".".join(labels)
    host = host.replace(".-", ".a").replace("-.", "a.")
    if len(host) < 3:
        host = host + "abc"
    host = host[:60]
    if host[0] in "-." or host[0].isdigit() and host[1:2] == ".":
        host = "h" + host[1:]
    if host[-1] in "-.0":
        host = host[:-1] + "z"
    port = draw(st.one_of(st.none(), st.integers(1, 49151)))
    tr = draw(st.sampled_from([None, "tcp", "udp", "sctp"]))
    pr = draw(st.sampled_from([None, "diameter", "radius"]))
    s = f"{scheme}://{host}"
    if port is not None:
        s += f":{port}"
    if tr:
        s += f";transport={tr}"
    if pr:
        s += f";protocol={pr}"
    return s


datetimes = st.one_of(
    st.datetimes(min_value=T_MIN, max_value=T_MAX),
    st.sampled_from([T_MIN, T_MAX, datetime.datetime(1970, 1, 1), datetime.datetime(1968, 1, 20, 3, 14, 7),
                     datetime.datetime(2036, 2, 6, 23, 59, 59, 999999), datetime.datetime(1900, 1, 1, 0, 0, 0, 999999),
                     datetime.datetime(2000, 2, 29, 12, 0, 0), datetime.datetime(2036, 2, 7, 6, 28, 15, 999999)]),
)


def dtval(dt):
    return {"t": "dt", "v": [dt.year, dt.month, dt.day, dt.hour, dt.minute, dt.second, dt.microsecond]}


u32 = st.one_of(st.sampled_from([0, 1, 255, 256, 2**16, 2**31 - 1, 2**31, 2**32 - 1]), st.integers(0, 2**32 - 1))
u64 = st.one_of(st.sampled_from([0, 1, 2**32, 2**63 - 1, 2**63, 2**64 - 1]), st.integers(0, 2**64 - 1))


# ------------------------------------------------------------------ value strategies by reference type
def val_strategy(row, depth, max_members=3, generic="any"):
    t = row["type"]
    name = row["cls"]
    if name == "FramedIpAddressAVP":
        # RFC 7155: 4 packed octets; the class takes an IPv4 literal (see DESIGN C01)
        # first octet 0 excluded: 0.0.0.0/8 is never a host address and the class sniffs 00 01 / 00 02 as an
        # Address family code (documented limit, DESIGN C02)
        return ipv4_lit.filter(lambda s: not s.startswith("0.")).map(lambda s: {"t": "ip", "s": s})
    if t in OCTET:
        bs = sized_bytes().map(bval)
        if name in BYTES_ONLY:
            return bs
        return st.one_of(bs, st.text(max_size=24).map(lambda s: {"t": "s", "s": s}))
    if t == "Unsigned32":
        return st.one_of(u32.map(lambda n: {"t": "i", "n": n}), u32.map(lambda n: bval(rc.ref_u32(n))))
    if t == "Unsigned64":
        return st.one_of(u64.map(lambda n: {"t": "i", "n": n}), st.integers(0, 2**64 - 1).map(lambda n: bval(rc.ref_u64(n))))
    if t == "Integer32":
        return st.integers(-2**31, 2**31 - 1).map(lambda n: bval(rc.ref_i32(n)))
    if t == "Enumerated":
        return st.sampled_from(row["values"]).map(lambda n: bval(rc.ref_u32(n)))
    if t == "Address":
        lit = st.one_of(ipv4_lit, ipv6_lit)
        return st.one_of(lit.map(lambda s: {"t": "ip", "s": s}), lit.map(lambda s: bval(rc.ref_addr(s))))
    if t == "Time":
        return st.one_of(datetimes.map(dtval), u32.map(lambda n: bval(rc.ref_u32(n))))
    if t == "DiameterURI":
        return st.one_of(uri_str().map(lambda s: {"t": "s", "s": s}), uri_str().map(lambda s: bval(s.encode())))
    if t == "Grouped":
        return grouped_val(row, depth, max_members, generic)
    raise ValueError(t)


@st.composite
def grouped_val(draw, row, depth, max_members=3, generic="any"):
    items = []
    for cname in row.get("mandatory", {}).values():
        items.append(draw(dict_node(cname, depth - 1, generic)))
    n_extra = draw(st.integers(0, max_members)) if depth > 0 else 0
    for _ in range(n_extra):
        items.append(draw(any_node(depth - 1, generic=generic)))
    items = draw(st.permutations(items)) if len(items) > 1 else items
    form = draw(st.sampled_from(["l", "l", "gb"]))
    items = list(items)
    if form == "gb":
        # Known finding C02 (decode re-flags known AVPs) excluded by construction: members handed over as
        # *bytes* are decoded by the library, so generic members that collide with a dictionary (vendor, code)
        # pair are given that class's default flag byte here.
        items = [_default_flags_for_known(n) for n in items]
    return {"t": form, "items": items}


def _default_flags_for_known(n):
    n = dict(n)
    if n["k"] == "gen":
        if n["vendor"] == 0 and refdict.by_key(None, n["code"]) is not None:
            # the decoder files Vendor-ID 0 under the same key as "no vendor" (RFC 6733 forbids Vendor-ID 0 on the wire;
            # C02 does not generate it): keep such members out of decoded-from-bytes groups
            n["vendor"] = 77777
            n["normalised"] = True
        row = refdict.by_key(n["vendor"], n["code"])
        if row is not None and n["flags"] != row["flags"]:
            n["flags"] = row["flags"]
            n["normalised"] = True
    if n["v"]["t"] in ("l", "gb"):
        n["v"] = dict(n["v"], items=[_default_flags_for_known(m) for m in n["v"]["items"]])
    return n


def dict_node(cname, depth, generic="any"):
    row = refdict.by_cls(cname)
    return val_strategy(row, depth, generic=generic).map(lambda v: {"k": "dict", "cls": cname, "v": v})


def _leaf_rows():
    return [r for r in refdict.rows() if r["type"] != "Grouped"]


def _grouped_rows():
    return [r for r in refdict.rows() if r["type"] == "Grouped"]


gen_data = st.one_of(
    sized_bytes(40).map(bval),
    st.text(max_size=12).map(lambda s: {"t": "s", "s": s}),
    u32.map(lambda n: {"t": "i", "n": n}),
    st.just({"t": "none"}),
)
codes = st.one_of(st.integers(0, 2**32 - 1), st.sampled_from([0, 1, 263, 264, 268, 1400, 2**24, 2**32 - 1]))
vendors = st.one_of(st.sampled_from([1, 10415, 13019, 2**32 - 1]), st.integers(1, 2**32 - 1))
# C01 only: Vendor-ID 0 with the V flag set is still "V flag agrees with the presence of a Vendor-ID"
vendors_incl_zero = st.one_of(st.sampled_from([0, 0, 1, 10415, 13019, 2**32 - 1]), st.integers(0, 2**32 - 1))


unknown_codes = st.integers(2**24, 2**32 - 1)     # no dictionary class has a code this large


@st.composite
def gen_node(draw, generic="any"):
    vendor = draw(st.one_of(st.none(), vendors_incl_zero if generic == "any" else vendors))
    flags = draw(st.integers(0, 127)) | (0x80 if vendor is not None else 0)
    code = draw(codes if generic == "any" else unknown_codes)
    return {"k": "gen", "code": code, "vendor": vendor, "flags": flags, "v": draw(gen_data)}


@st.composite
def any_node(draw, depth=3, cls_names=None, generic="any"):
    if cls_names:
        return draw(dict_node(draw(st.sampled_from(cls_names)), depth, generic))
    kind = draw(st.sampled_from(["leaf", "leaf", "leaf", "grouped", "gen"] if depth > 0 else ["leaf", "leaf", "gen"]))
    if kind == "gen":
        return draw(gen_node(generic))
    rows = _leaf_rows() if kind == "leaf" else _grouped_rows()
    row = draw(st.sampled_from(rows))
    return draw(dict_node(row["cls"], depth, generic))


hdr_field = lambda bits: st.one_of(st.sampled_from([0, 1, 2**(bits - 1) - 1, 2**(bits - 1), 2**bits - 1]), st.integers(0, 2**bits - 1))


@st.composite
def header(draw):
    return {"version": draw(hdr_field(8)), "flags": draw(hdr_field(8)), "cmd": draw(hdr_field(24)),
            "app": draw(hdr_field(32)), "hbh": draw(hdr_field(32)), "e2e": draw(hdr_field(32)),
            "as_bytes": draw(st.booleans())}


@st.composite
def message(draw, depth=3, max_avps=8):
    n = draw(st.integers(0, max_avps))
    avps = [draw(any_node(depth)) for _ in range(n)]
    if avps and draw(st.booleans()):
        # force a second AVP of the same name
        avps.insert(draw(st.integers(0, len(avps))), draw(st.sampled_from(avps)))
    from . import common
    return {"hdr": draw(header()), "avps": avps,
            "how": draw(st.sampled_from(["ctor", "append", "extend", "setter", "mixed"])),
            "tz": draw(st.sampled_from([None, None, None] + common.TZS)),
            # a second message built from the *header object* of the first one (how error answers and relayed messages are made)
            "derive": draw(st.sampled_from([None, None, None, "answer", "request"]))}


# ------------------------------------------------------------------ reference encoding
def ref_data(row_type, name, val):
    t = val["t"]
    if t == "b":
        return bytes.fromhex(val["x"])
    if t == "s":
        if row_type == "Address":
            return rc.ref_addr(val["s"]) if name != "FramedIpAddressAVP" else rc.ref_addr(val["s"])[2:]
        return val["s"].encode("utf-8")
    if t == "none":
        return b""
    if t == "i":
        if row_type == "Unsigned64":
            return rc.ref_u64(val["n"])
        return rc.ref_u32(val["n"])
    if t == "ip":
        if name == "FramedIpAddressAVP":
            return rc.ref_addr(val["s"])[2:]
        return rc.ref_addr(val["s"])
    if t == "dt":
        return rc.ref_time(datetime.datetime(*val["v"]))
    if t in ("l", "gb"):
        return b"".join(ref_node(n) for n in val["items"])
    raise ValueError(val)


def ref_node(node, flags=None):
    if node["k"] == "dict":
        row = refdict.by_cls(node["cls"])
        f = row["flags"] if flags is None else flags
        return rc.enc_avp(row["code"], f, row["vendor"], ref_data(row["type"], row["cls"], node["v"]))
    return rc.enc_avp(node["code"], node["flags"], node["vendor"], ref_data("generic", None, node["v"]))


def ref_message(m):
    h = m["hdr"]
    return rc.enc_msg(h["version"], h["flags"], h["cmd"], h["app"], h["hbh"], h["e2e"], [ref_node(n) for n in m["avps"]])


# ------------------------------------------------------------------ building bromelia objects
def build_val(val):
    t = val["t"]
    if t == "b":
        return bytes.fromhex(val["x"])
    if t == "s":
        return val["s"]
    if t == "i":
        return val["n"]
    if t == "none":
        return None
    if t == "ip":
        return val["s"]
    if t == "dt":
        return datetime.datetime(*val["v"])
    if t == "l":
        return [build_node(n) for n in val["items"]]
    if t == "gb":
        return b"".join(ref_node(n) for n in val["items"])
    raise ValueError(val)


def build_node(node):
    if node["k"] == "dict":
        return refdict.cls_obj(node["cls"])(build_val(node["v"]))
    from bromelia.base import DiameterAVP
    return DiameterAVP(code=node["code"], vendor_id=node["vendor"], flags=node["flags"], data=build_val(node["v"]))


def build_header(h):
    from bromelia.base import DiameterHeader
    if h.get("as_bytes"):
        return DiameterHeader(version=bytes([h["version"]]), flags=bytes([h["flags"]]),
                              command_code=h["cmd"].to_bytes(3, "big"), application_id=h["app"].to_bytes(4, "big"),
                              hop_by_hop=h["hbh"].to_bytes(4, "big"), end_to_end=h["e2e"].to_bytes(4, "big"))
    return DiameterHeader(version=h["version"], flags=h["flags"], command_code=h["cmd"], application_id=h["app"],
                          hop_by_hop=h["hbh"], end_to_end=h["e2e"])


def build_message(m):
    from bromelia.base import DiameterMessage
    hdr = build_header(m["hdr"])
    objs = [build_node(n) for n in m["avps"]]
    how = m["how"]
    if how == "ctor":
        return DiameterMessage(hdr, objs)
    msg = DiameterMessage(hdr)
    if how == "append":
        for o in objs:
            msg.append(o)
    elif how == "extend":
        msg.extend(objs)
    elif how == "setter":
        msg.avps = objs
    else:
        half = len(objs) // 2
        msg.extend(objs[:half])
        for o in objs[half:]:
            msg.append(o)
    return msg


# ------------------------------------------------------------------ classification helpers
def walk(nodes, depth=1):
    for n in nodes:
        yield n, depth
        if n["v"]["t"] in ("l", "gb"):
            yield from walk(n["v"]["items"], depth + 1)


def node_features(nodes):
    """-> set of feature labels used for non-triviality and histograms."""
    feats = set()
    names = []
    for n, d in walk(nodes):
        if d >= 2:
            feats.add("nested")
        if d >= 3:
            feats.add("depth>=3")
        if n.get("normalised"):
            feats.add("excluded-by-known-finding:gb-member-flags")
        if n["k"] == "gen":
            feats.add("generic")
            vendor = n["vendor"]
            dlen = len(ref_data("generic", None, n["v"]))
            if d == 1:
                names.append(("gen", n["code"], vendor))
        else:
            row = refdict.by_cls(n["cls"])
            vendor = row["vendor"]
            dlen = len(ref_data(row["type"], row["cls"], n["v"]))
            feats.add("type=" + row["type"])
            if d == 1:
                names.append(n["cls"])
        if vendor is not None:
            feats.add("vendor")
            if vendor == 0:
                feats.add("vendor-id-zero")
        feats.add(f"res{dlen % 4}")
        if dlen % 4:
            feats.add("padded")
            if vendor is not None:
                feats.add("vendor+padded")
            if d >= 2:
                feats.add("nested+padded")
    if len(names) != len(set(names)):
        feats.add("same-name-twice")
    return feats

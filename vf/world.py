"""The controlled world: a real bromelia Diameter node running under the harness
scheduler against a fake network, plus a scripted peer that speaks
reference-encoded Diameter."""
import os
import socket as _real_socket
import struct

from . import common
from . import refcodec as rc
from .dsched import Scheduler, Net, Patch, Killed, HarnessError

LOCAL = dict(host="node.local.example", realm="local.example", ip="10.0.0.1", port=3868)
PEER = dict(host="peer.remote.example", realm="remote.example", ip="10.0.0.2", port=3868)

APP_IDS = {"s6a": 16777251, "gx": 16777238, "rx": 16777236, "swx": 16777265}


# ---------------------------------------------------------------------- reference-encoded peer messages
def _oh(host):
    return rc.enc_avp(264, 0x40, None, host.encode())


def _or(realm):
    return rc.enc_avp(296, 0x40, None, realm.encode())


def _ip(ip):
    return rc.enc_avp(257, 0x40, None, b"\x00\x01" + _real_socket.inet_aton(ip))


def _u32(code, n, flags=0x40):
    return rc.enc_avp(code, flags, None, struct.pack(">I", n))


def peer_cer(hbh=0x11111111, e2e=0x22222222, host=None, realm=None, flags=0x80, drop=None, apps=()):
    avps = {"oh": _oh(host or PEER["host"]), "or": _or(realm or PEER["realm"]), "ip": _ip(PEER["ip"]), "vid": _u32(266, 0),
            "pn": rc.enc_avp(269, 0x00, None, b"scripted-peer")}
    if drop:
        avps.pop(drop)
    extra = [_u32(258, a) for a in apps]
    return rc.enc_msg(1, flags, 257, 0, hbh, e2e, list(avps.values()) + extra)


def peer_cea(hbh, e2e, host=None, realm=None, flags=0x00, drop=None, result=2001):
    avps = {"rc": _u32(268, result), "oh": _oh(host or PEER["host"]), "or": _or(realm or PEER["realm"]), "ip": _ip(PEER["ip"]),
            "vid": _u32(266, 0), "pn": rc.enc_avp(269, 0x00, None, b"scripted-peer")}
    if drop:
        avps.pop(drop)
    return rc.enc_msg(1, flags, 257, 0, hbh, e2e, list(avps.values()))


def peer_dwr(hbh, e2e, host=None, realm=None, flags=0x80):
    return rc.enc_msg(1, flags, 280, 0, hbh, e2e, [_oh(host or PEER["host"]), _or(realm or PEER["realm"])])


def peer_dwa(hbh, e2e, host=None, realm=None, flags=0x00):
    return rc.enc_msg(1, flags, 280, 0, hbh, e2e, [_u32(268, 2001), _oh(host or PEER["host"]), _or(realm or PEER["realm"])])


def peer_dpr(hbh, e2e, host=None, realm=None, cause=0, flags=0x80):
    return rc.enc_msg(1, flags, 282, 0, hbh, e2e, [_oh(host or PEER["host"]), _or(realm or PEER["realm"]), _u32(273, cause)])


def peer_dpa(hbh, e2e, host=None, realm=None, flags=0x00):
    return rc.enc_msg(1, flags, 282, 0, hbh, e2e, [_u32(268, 2001), _oh(host or PEER["host"]), _or(realm or PEER["realm"])])


def app_request(hbh, e2e, app=16777251, cmd=316, dest_realm=None, dest_host=None, payload=b"", sid=b"peer;1;1", user=b"001010000000001"):
    avps = [rc.enc_avp(263, 0x40, None, sid), _oh(PEER["host"]), _or(PEER["realm"])]
    if dest_host is not None:
        avps.append(rc.enc_avp(293, 0x40, None, dest_host.encode()))
    if dest_realm is not None:
        avps.append(rc.enc_avp(283, 0x40, None, dest_realm.encode()))
    avps.append(rc.enc_avp(1, 0x40, None, user))
    if payload:
        avps.append(rc.enc_avp(2**24 + 7, 0x00, None, payload))      # unknown AVP used as ballast
    return rc.enc_msg(1, 0xC0, cmd, app, hbh, e2e, avps)


def app_answer(hbh, e2e, app=16777251, cmd=316, result=2001, payload=b"", sid=b"node;1;1"):
    avps = [rc.enc_avp(263, 0x40, None, sid), _u32(268, result), _oh(PEER["host"]), _or(PEER["realm"])]
    if payload:
        avps.append(rc.enc_avp(2**24 + 7, 0x00, None, payload))
    return rc.enc_msg(1, 0x40, cmd, app, hbh, e2e, avps)


# ---------------------------------------------------------------------- world
class World:
    def __init__(self, role="client", apps=(), watchdog=30, choices=None, line_preempt=False, max_steps=400000, line_holds=False):
        common.bootstrap()
        self.role = role
        self.apps = list(apps)
        self.sched = Scheduler(choices=choices, line_preempt=line_preempt, line_holds=line_holds,
                               trace_prefix=common.REPO.rstrip("/") + "/bromelia/", max_steps=max_steps)
        self.net = Net(self.sched)
        self.patch = Patch(self.sched, self.net)
        self.watchdog = watchdog
        self.ticker = 0.005
        self.d = None
        self.app_threads = []
        self.results = {}
        self.unreaped = []

    def __enter__(self):
        from bromelia.base import DiameterRequest
        import bromelia.bromelia as bb
        import bromelia.statemachine as sm
        # timing only: a coarser state-machine tick makes a virtual second 50x cheaper to simulate
        self._saved_ticker = sm.STATE_MACHINE_TICKER
        sm.STATE_MACHINE_TICKER = self.ticker
        self.patch.__enter__()
        self.sched.register_driver()
        DiameterRequest.hop_by_hop_identifiers.clear()
        DiameterRequest.end_to_end_identifiers.clear()
        bb.Worker.associations.clear()
        del bb.Worker.recv_queues[:]
        from bromelia.setup import Diameter
        cfg = {
            "MODE": "CLIENT" if self.role == "client" else "SERVER", "TRANSPORT_TYPE": "TCP",
            "APPLICATIONS": [{"vendor_id": struct.pack(">I", 10415), "app_id": struct.pack(">I", APP_IDS[a])} for a in self.apps],
            "LOCAL_NODE_HOSTNAME": LOCAL["host"], "LOCAL_NODE_REALM": LOCAL["realm"], "LOCAL_NODE_IP_ADDRESS": LOCAL["ip"],
            "LOCAL_NODE_PORT": LOCAL["port"], "PEER_NODE_HOSTNAME": PEER["host"], "PEER_NODE_REALM": PEER["realm"],
            "PEER_NODE_IP_ADDRESS": PEER["ip"], "PEER_NODE_PORT": PEER["port"], "WATCHDOG_TIMEOUT": self.watchdog,
        }
        self.d = Diameter(config=cfg)
        return self

    def __exit__(self, et, ev, tb):
        try:
            self.unreaped = self.sched.kill_all()
        finally:
            self.patch.__exit__(et, ev, tb)
            import bromelia.statemachine as sm
            sm.STATE_MACHINE_TICKER = self._saved_ticker
        return False

    # ------------------------------------------------------------------ app-side helpers (each runs in a controlled thread)
    def call(self, name, fn):
        """run fn() in a controlled application thread; the result / exception is stored in self.results[name]"""
        errors = common.lib_errors()

        def runner():
            try:
                self.results[name] = ("ok", fn())
            except Killed:
                raise
            except errors as e:
                self.results[name] = ("lib-error", e)
            except Exception as e:
                self.results[name] = ("error", e)
        ct = self.sched.spawn(runner, name)
        self.app_threads.append(ct)
        return ct

    def start(self, name="app-start"):
        return self.call(name, lambda: self.d.start())

    # ------------------------------------------------------------------ the node's connection socket
    @property
    def sock(self):
        """the node's most recent connection socket"""
        for s in reversed(self.net.socks):
            if s.kind == "stream" and s.state != "new":
                return s
        return None

    def conn_socks(self):
        return [s for s in self.net.socks if s.kind == "stream" and s.state != "new"]

    # ------------------------------------------------------------------ peer-side actions
    def feed(self, data, cuts=None, sock=None):
        """peer writes `data`; it becomes readable as the given segments (cuts = sorted offsets)"""
        sock = sock or self.sock
        prev = 0
        for c in list(cuts or []) + [len(data)]:
            if c > prev:
                sock.inbox.append(bytes(data[prev:c]))
                prev = c

    def sent_bytes(self, sock=None):
        sock = sock or self.sock
        return bytes(sock.outbox) if sock else b""

    def sent_messages(self, sock=None):
        """reference-decoded whole messages written so far (a torn tail is left out)"""
        # used inside wait predicates (evaluated at every scheduling step): decode again only when more bytes were written
        sock = sock or self.sock
        if sock is None:
            return []
        key = (id(sock), len(sock.outbox))
        memo = self.__dict__.setdefault("_sent_memo", {})
        if memo.get("key") != key:
            memo["key"] = None
            memo["val"] = rc.dec_stream(bytes(sock.outbox), strict_tail=False)
            memo["key"] = key
        return list(memo["val"])

    def state(self):
        return self.d.get_current_state()

    # ------------------------------------------------------------------ canned phases under the fair schedule
    def run(self, pred, horizon=10.0):
        return self.sched.run_until(lambda: pred() or self.sched.overrun, horizon)

    def open_connection(self, horizon=20.0, name="app-start"):
        """start() + capabilities exchange with the scripted peer.  -> True when Open was reached"""
        n_socks = len(self.net.socks)
        n_listen = len(self.net.listeners)
        self.start(name)
        if self.role == "client":
            self.net.connect_policy = "ack"
            self.run(lambda: len(self.conn_socks_since(n_socks)) > 0 and any(m["cmd"] == 257 for m in self._safe_sent()), horizon)
            if not self.conn_socks_since(n_socks):
                return False
            cer = next((m for m in self._safe_sent() if m["cmd"] == 257), None)
            if cer is None:
                return False
            self.feed(peer_cea(cer["hbh"], cer["e2e"]))
        else:
            self.run(lambda: len(self.net.listeners) > n_listen, horizon)
            if len(self.net.listeners) <= n_listen:
                return False
            self.net.peer_connect(self.net.listeners[-1])
            self.run(lambda: self.d._association is not None and self.d._association.transport is not None
                     and self.sock in self.d._association.transport.selector.get_map(), horizon)
            self.feed(peer_cer())
        self.run(lambda: self.d.is_open(), horizon)
        if self.role != "client" and self.d.is_open():
            # the handshake is over for the harness only when the CEA has left the node completely
            self.run(lambda: any(m["cmd"] == 257 and not m["flags"] & 0x80 for m in self._safe_sent()), 2.0)
        return bool(self.d.is_open())

    def second_generation(self, how):
        """End the open connection (how: 'local-close' | 'peer-fin' | 'peer-fin-mid-message') and open a new one with the same node
        object.  -> True when Open was reached again.  The scenario that follows then runs on a connection that has a history."""
        sock = self.sock
        if how == "local-close":
            self.call("closer-gen1", lambda: self.d.close())
            self.run(lambda: any(m["cmd"] == 282 and m["flags"] & 0x80 for m in self._safe_sent()), 5.0)
            dpr = next((m for m in self._safe_sent() if m["cmd"] == 282 and m["flags"] & 0x80), None)
            if dpr:
                self.feed(peer_dpa(dpr["hbh"], dpr["e2e"]))
        else:
            if how == "peer-fin-mid-message":
                whole = app_request(0x0DD0DD01, 0x0DD0DD02, dest_realm=LOCAL["realm"], payload=bytes(64))
                self.feed(whole[:len(whole) // 2 + 3])
                self.run(lambda: False, 0.2)
            self.net.peer_fin(sock)
        self.run(lambda: self.state() == "Closed" and not [t for t in self.sched.live_threads()
                                                           if t.name.endswith(("_psm_thread", "transport_layer_thread", "recv_message_monitor"))], 20.0)
        if self.state() != "Closed":
            return False
        return self.open_connection(name="app-start-gen2")

    def conn_socks_since(self, n):
        return [s for s in self.net.socks[n:] if s.kind == "stream" and s.state != "new"]

    def _safe_sent(self):
        try:
            return self.sent_messages()
        except rc.RefDecodeError:
            return []

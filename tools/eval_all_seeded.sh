#!/bin/sh
# usage: tools/eval_all_seeded.sh <root with Cxx/mutant_*/ dirs> [extra eval_seeded args]
# Confirms and evaluates every mutant dir sequentially; results in <dir>/result.json
cd "$(dirname "$0")/.."
root=$1; shift
for d in "$root"/C*/mutant_*; do
  [ -f "$d/patch.diff" ] || continue
  [ -f "$d/result.json" ] && continue
  echo "== $d"
  ./tools/eval_seeded.py "$d" "$@" > "$d/result.json" 2> "$d/result.err" || echo "   eval failed: $(tail -1 $d/result.err)"
  /venv/bin/python - "$d/result.json" <<'E'
import json, sys
try:
    r = json.load(open(sys.argv[1]))
    print("   confirmed=%s caught_by=%s %s" % (r.get("confirmed"), r.get("caught_by"), {k: v["signatures"][:2] for k, v in r.get("checks", {}).items()}))
except Exception as e:
    print("   (no result)", e)
E
done

#!/venv/bin/python
"""Regenerates /verif/MANIFEST.json from the table below and validates it."""
import json, os, subprocess, sys

VERIF = os.path.dirname(os.path.dirname(os.path.abspath(__file__)))

CHECKS = {}   # pid -> dict(category, text, design_ref, note, technique)

def reg(pid, text, note, technique, design_ref, category="exploration"):
    import re as _re
    assert _re.fullmatch(r"C\d\d", pid) and pid not in CHECKS, f"bad or duplicate property id in reg(): {pid!r}"
    CHECKS[pid] = dict(category=category, text=text, design_ref=design_ref, note=note, technique=technique)

reg("C17",
    "Exhaustive enumeration of all codes 0..65535 (plus boundary and Hypothesis-drawn 32-bit values) through the integer "
    "predicates and through the answer-object predicates on real DiameterAnswer objects (header E bit clear and set), against the "
    "integer-division oracle n//1000; complete for the 16-bit range, sampled beyond; plus generated histories on one answer object "
    "whose Result-Code is changed in place between looks, answers that also carry an Experimental-Result, and a first-use concurrency "
    "sweep (fresh interpreter per scenario, one thread parked in the middle of the process's very first predicate call).",
    "Trusted: Python integer arithmetic; ResultCodeAVP construction for the answer-object form. Multiples of 1000 and answers "
    "without Result-Code are outside the statement (counted, not judged).",
    "exhaustive enumeration + property-based sampling against an arithmetic oracle", "DESIGN.md#c17")
reg("C18",
    "Exhaustive enumeration of every digit string up to length 5 (quick) / 7 (thorough) plus Hypothesis-generated strings, "
    "structured long strings (length 6..24/40 x every two-digit prefix x suffix/filler classes), ints and MSISDN/STN-SR AVPs up to 20 digits, call histories "
    "mixing refused inputs with digit strings, and a first-use concurrency sweep in fresh interpreters, against an independent nibble-swap reference encoder and the round-trip law.",
    "Trusted: the 12-line reference encoder ref_tbcd; digit strings only (no TBCD special characters).",
    "exhaustive enumeration + property-based round-trip/differential testing", "DESIGN.md#c18")

reg("C01",
    "Property-based differential test: generated logical content (all header field widths; every dictionary class swept with "
    "in-domain values over all four length residues; generic AVPs; Grouped nesting to depth 4; five ways of adding AVPs; all 50 "
    "typed command classes; messages built from another message's header object; the process time zone as a case dimension) is serialised by bromelia and by an independent struct-based RFC 6733 encoder; byte strings, "
    "per-AVP encodings and Message Length must agree exactly. Plus a first-use concurrency sweep: in fresh interpreters two threads "
    "serialise their own messages while one of them is parked at successive source lines.",
    "Trusted: vf/refcodec.py (40 lines), ref/avp_dictionary.json (code/vendor/default flags per class), the per-type value table in "
    "vf/gens.py. Sampled, not exhaustive; constructions the library refuses are discards. Grouped-from-bytes members colliding with "
    "a dictionary pair get default flags (known finding C02 excluded by construction).",
    "property-based differential testing against a reference encoder (Hypothesis)", "DESIGN.md#c01")
reg("C02",
    "Property-based round-trip/differential test: well-formed streams are produced by the reference encoder from generated wire "
    "forests (any flag byte, known/unknown pairs, nested Grouped, 1-4 messages); every decoded field is compared with the generated "
    "value and the re-encoding with the original bytes. Plus a concurrent part: two generated streams decoded by two controlled "
    "threads with directed delays between source lines of the shared class-registry code; each must decode as it does alone. "
    "Plus registry histories: decode / print / define-a-dictionary-class sequences over (vendor, code) pairs no shipped class uses.",
    "Trusted: reference encoder and dictionary. One root cause is a listed known finding (decode re-flags known AVPs); its "
    "signatures are exact so any other flag/data deviation is still reported.",
    "property-based round-trip testing with generator-side expected values (Hypothesis)", "DESIGN.md#c02")
reg("C09",
    "Property-based test over all 50 typed command classes x generated argument subsets (optionals, untabled AVP objects, extra "
    "keyword AVPs, omitted mandatory argument; for requests also a random source that first repeats identifiers already in use) against a reference command table (code/Application-ID/R from the specs) and the "
    "reference encoder, plus serialise/decode round trip.",
    "Trusted: ref/commands.json (wire identity hand-written from the specs and cross-checked; argument tables snapshotted from the "
    "pinned tree), reference dictionary/encoder.",
    "property-based testing against a reference command table (Hypothesis)", "DESIGN.md#c09")

reg("C10",
    "Exhaustive table checks (uniqueness of (vendor, code) over every DiameterAVP subclass; every class against the vendored "
    "dictionary, docs/list-of-avps.md and definitions.py) plus, for every class, an exhaustive table of out-of-domain value kinds "
    "per data type (wrong widths 0..12, wrong Python types, non-members, wrong address family/width, non-aaa URIs, missing "
    "mandatory members, garbage bytes, timezone-aware datetimes: refused or encoded as their instant) and Hypothesis-generated in-domain values whose encoding is read back with the reference decoder.",
    "Trusted: ref/avp_dictionary.json (fixed snapshot audited against docs and definitions.py), the domain table bad_values() in "
    "vf/checks/c10.py. Not judged: ints/bools for Address, Address families other than 1/2, URI port/transport grammar.",
    "exhaustive table comparison + property-based domain/boundary testing", "DESIGN.md#c10")
reg("C20",
    "Exhaustive enumeration of (boundary word set x 32 indices x test/set/unset) on two Unsigned32 classes plus Hypothesis-generated "
    "random words, out-of-range indices, IPv4/IPv6 literals by structure and datetimes 1900..2036 (built under 7 process time zones), against integer arithmetic, "
    "socket.inet_pton and ordinal-day arithmetic.",
    "Trusted: Python int arithmetic, socket.inet_pton, datetime.toordinal. Naive datetimes, literals without scope id.",
    "exhaustive enumeration + property-based testing against arithmetic oracles", "DESIGN.md#c20")

reg("C11",
    "Model-based stateful test: generated operation sequences (append, extend, pop, cleanup, avps=, msg[i]=, update_key, update_avps, "
    "refresh; up to 15 steps) on 5 container kinds are applied to the real container and to a list-of-identities reference model; "
    "after every step the object list, the name<->object bijection, has_avp and Message Length/Grouped data are compared. Plus an "
    "exhaustive enumeration of all 14^4 (quick) / 14^6 (thorough) operation sequences on an empty message.",
    "Trusted: the reference model (Python list of object identities) and reference sizes. A fresh object per insertion; operations "
    "refused with a library error must leave state unchanged. Exhaustive to depth 4/6 only (not 12).",
    "model-based stateful property testing + bounded exhaustive sequence enumeration", "DESIGN.md#c11")
reg("C19",
    "Property-based test: complete 12-key configuration dictionaries in generated key order with valid/invalid values per key and "
    "unknown keys, through _convert_config_to_connection_obj and Diameter(config=...), plus generated YAML spec files (1..4 entries, "
    "mixed case, omitted transport) through _convert_file_to_config; oracle = exact reflection or InvalidConfigKey/InvalidConfigValue.",
    "Trusted: the validity classification per key in vf/checks/c19.py (Python 3.12 ipaddress semantics for malformed IPv4 strings). "
    "Not generated: booleans, falsy TRANSPORT_TYPE, non-string IPs other than None, APPLICATIONS shape errors.",
    "property-based testing with a validity-classifying generator (Hypothesis)", "DESIGN.md#c19")

reg("C12",
    "Property-based test over every typed request/answer pair (C09 argument generator) x Result-Code (library constants, random and "
    "boundary codes; exhaustive 1001..5999 sweep on one pair in quick, six in thorough) x {Result-Code, Experimental-Result, both} x "
    "{request as built, as decoded}, through decorate_answer and through callback_route with an in-process Worker; the sent message "
    "is read with the reference decoder. Answer objects are fresh, or carry an E bit set by the handler, or are reused objects that "
    "already went through decorate_answer / family predicates before their Result-Code was changed in place.",
    "Trusted: reference decoder; in-process Worker with a fake multiprocessing manager. Multiples of 1000 are not generated.",
    "property-based testing + exhaustive code sweep, reference-decoded output", "DESIGN.md#c12")
reg("C13",
    "Property-based test over generated route tables (1-3 applications x command codes, shared codes), request histories of 1-4 requests "
    "per application object (registered and unregistered pairs, built and decoded) and handler outcomes (answer, None, wrong types, "
    "exceptions with 0/1/2 arguments) on a real Bromelia object with in-process Workers; handler invocations are logged and every "
    "worker's send queue is read with the reference decoder. Plus concurrent dispatch under the controlled scheduler: 2-3 requests "
    "through the real create_message_thread with gated handlers; and a poll part: requests left on the receive queues of 2-3 "
    "connections are taken with the real get_incoming_message() and dispatched.",
    "Trusted: reference decoder; the fake manager (thread primitives instead of multiprocessing proxies; the lock never blocks so a "
    "second send is observable instead of deadlocking).",
    "property-based testing of dispatch against a logging harness (Hypothesis)", "DESIGN.md#c13")
reg("C15",
    "Property-based test with a harness-owned random source: bromelia.base.os.urandom is replaced by a generated low-entropy sequence "
    "(1-3 distinct values, adversarial repeats) followed by fresh values; creation histories mix generic/typed header-less requests, "
    "explicit-header requests, answers, generic messages and connection close events; identifiers must be pairwise distinct and explicit-header objects must "
    "consume nothing.",
    "Trusted: the substituted source and, for the concurrent clause, the controlled scheduler (2-3 creator threads, source-line "
    "preemption inside bromelia/base.py, sampled schedules; real locks found on DiameterRequest are replaced by scheduler-aware ones).",
    "property-based testing with an adversarial random source + controlled-scheduler race testing", "DESIGN.md#c15")
reg("C16",
    "Model-based history test under a virtual clock: generated histories of Session-Id generation (AVP from identity, typed message, "
    "Acct-Multi-Session-Id, bulk origin updates that switch identity, bytes input, foreign Session-Ids that are then bulk-updated, "
    "bulk updates carrying both an origin and a bytes id) with 0/1/1000 s ticks, many ids per clock second; "
    "all ids must be pairwise distinct and match identity;high32;low32[;optional].",
    "Trusted: the substituted datetime module in bromelia._internal_utils; SessionHandler.reset() at history start models process start.",
    "stateful property-based testing with a virtual clock (Hypothesis)", "DESIGN.md#c16")

WORLD = ("Controlled world: the real Diameter node runs on a harness-owned scheduler (every threading/queue/time/selector/socket "
         "operation, and optionally every source line of bromelia, is a scheduling point), a virtual clock and a fake TCP socket "
         "calibrated on the sandbox kernel; the scripted peer speaks reference-encoded Diameter. ")
reg("C03",
    "(a) decoder: Hypothesis-generated structural mutations of reference-encoded streams + a systematic sweep (every truncation "
    "point; every length field x {0..40, true+-1..4, 2^16, 2^24-1}; nesting depth up to 2000) through DiameterMessage.load and "
    "DiameterAVP.load with a deterministic step bound (sys.monitoring), library-error-type and result-size oracles; thorough adds "
    "16 atheris/libFuzzer campaigns with the same oracle inside the target. (b) live node in the controlled world.",
    "Trusted: step counter (function entries + jumps in bromelia code), bound 5000+400n+n^2/16; reference decoder for the "
    "malformed/well-formed classification. " ,
    "structure-aware mutation testing + coverage-guided fuzzing (atheris) with semantic oracles", "DESIGN.md#c03")
reg("C04",
    WORLD + "Generated message sequences x segmentations (one segment, aligned, inside header, inside AVP header, bytewise, random, "
    "coalesced, header-prefix) x 1-2 consumers x schedule prefixes (random walk, PCT-like, optional source-line preemption) x targeted "
    "delays (a library thread paused right after leaving a critical section) + fair completion; "
    "delivered dump() bytes compared with the sent sequence (multiset, once, order), DWA order reference-decoded. Plus a bounded exhaustive rendezvous sweep: the consumer paused at each source line of the delivery API until the state machine's next hand-over signal.",
    "Schedules are sampled, not enumerated; preemption granularity = shim operation / source line; liveness judged within 12 virtual "
    "seconds; TCP only.",
    "controlled-scheduler concurrency testing (randomised + PCT-like schedules) with a sequence oracle", "DESIGN.md#c04")
reg("C05",
    WORLD + "1-3 submitter threads x message sequences (sizes crossing the 256 KiB batch limit) x partial-write patterns x inbound "
    "traffic x schedule prefixes; every byte accepted by the fake socket is reference-decoded and compared with the submitted "
    "messages (whole, multiset, per-submitter order). Plus staggered submissions, inbound data arriving while a write remainder is pending, the scenario on the second connection of the object, and a bounded exhaustive rendezvous sweep over the send path.",
    "Schedules sampled; partial writes accept >= 1 byte; BlockingIOError is not injected on a writable socket; base traffic (CER/CEA, "
    "DWR/DWA, DPR/DPA) filtered by command code.",
    "controlled-scheduler concurrency testing with fault injection (partial writes) and a stream oracle", "DESIGN.md#c05")

reg("C08",
    WORLD + "Generated (termination cause x life point x role x schedule prefix) cases: local close, DPR, peer FIN/RST, refused "
    "connect at connecting / awaiting CEA / responder awaiting CER / idle Open / queued inbound / queued outbound / blocked consumer / "
    "Closing; at fair completion the state, every fake socket and selector, every controlled thread and the blocked API calls are "
    "inspected, then the same object is started again and must reach Open. Plus DPRs with other Disconnect-Causes, peer time-out / host-unreachable, a death in the middle of an inbound message, two consumers, traffic in both directions after the restart, and a bounded exhaustive two-consumer rendezvous sweep.",
    "Termination is bounded liveness: 30 virtual seconds under fair completion; schedules sampled; a cooperative peer answers the "
    "node's DPR except at life point 'closing'.",
    "controlled-scheduler fault-injection testing (connection faults x life points) with resource/liveness oracles", "DESIGN.md#c08")

reg("C06",
    WORLD + "Model-based testing: generated event sequences (connect ack/nack, valid and four kinds of invalid CER/CEA, DWR, DWA, DPR, "
    "DPA, T-flagged re-transmissions, application and misaddressed messages, local stop, FIN/RST, idle, restart; both roles; 0-2 applications) are applied to the "
    "real node; after every event the reported state, the reference-decoded base-protocol output, deliveries, the state-machine "
    "thread and (when Closed) the transport are compared with a nondeterministic reference transition model written from RFC 6733 "
    "5.6 and the statement.",
    "Long sequences are sampled (guided random, <= 16 events) under the fair schedule; every sequence of 2 (quick) / 3 (thorough) events "
    "over a 21-event alphabet after the canonical opening is enumerated for both roles; rows on which the statement is silent are "
    "nondeterministic; election events are excluded by construction.",
    "model-based testing against a reference transition model (generated event histories + bounded exhaustive enumeration)", "DESIGN.md#c06")
reg("C07",
    WORLD + "History testing with the C06 machinery biased to base requests (boundary identifier values, two requests in one segment, "
    "outbound backlog across the batch limit, reconnects on the same object, T-flagged re-transmissions repeating an End-to-End id); "
    "every CEA/DWA/DPA written is reference-decoded and aligned with the requests in arrival order (command, R clear, both "
    "identifiers, local origin, Result-Code); answering a T-flagged request is optional, answering it with other identifiers is not.",
    "Which requests must be answered is decided by the C06 reference model; fair schedule.",
    "model-based history testing with a positional request/answer oracle", "DESIGN.md#c07")

reg("C14",
    "Controlled-scheduler concurrency test on a real Bromelia object with in-process Workers (shim primitives, real send_handler "
    "loops): 1-4 callers in send_message(), optionally over two connections with the same Hop-by-Hop id outstanding on both, answers dispatched through the real handler_pending_answers in generated permutations "
    "and delays, duplicates and unsolicited answers, random/PCT-like schedule prefixes with optional line preemption, plus a "
    "targeted schedule that keeps a caller unscheduled between queueing and registering until its answer has been handled, and "
    "directed delays between source lines of the registry / rendezvous functions; "
    "oracle = identity of the returned answer object, bounded liveness, empty registry.",
    "'Always wakes' is bounded liveness (20 virtual seconds, fair completion); schedules sampled + one targeted window.",
    "controlled-scheduler concurrency testing (random, PCT-like and targeted preemption)", "DESIGN.md#c14")

# generator / oracle widenings of the sixth sensitivity round (DESIGN.md I.14), appended to the texts above
ADD6 = {
    "C01": " Also: flags set through the flag-bit API (accepted calls change exactly that bit, refused calls nothing) and a strided mid-call concurrency sweep over building + serialising (same bytes as alone).",
    "C02": " Also: a strided mid-call concurrency sweep over decoding (same result as alone); decoder histories (a well-formed stream decoded after one decoder has refused malformed input up to 420 times, or after an earlier decoded result was edited in place) and a first-use sweep (two threads make the first decodes of a fresh interpreter, one parked mid-way).",
    "C03": " Also: a CPU-time bound (ITIMER_VIRTUAL) for time spent below the interpreter, DiameterURI texts that go wrong late, and histories of refused inputs fed to one decoder; live inputs are pre-judged by the decoder oracle.",
    "C04": " Also: segments cut exactly at plausible read sizes (4096 / 65536 / 262144 bytes with nothing pending), T-flagged messages and repeated End-to-End / Hop-by-Hop identifiers.",
    "C05": " Also: long send_messages() lists (31..257 messages) and a sweep with the state machine thread paused inside the drain of the send queue while the same submitter hands over an answer / a request.",
    "C06": " Also: Closing with a request of the local application outstanding, a further message after the DPA, every single event after 9 multi-step prefixes; an invalid CER may be answered with a rejection CEA (judged by C07) or not at all.",
    "C07": " Also: two node objects of one process with the same local identity answering base requests at the same moment, one state machine thread parked at successive source lines (sweep).",
    "C08": " Also: close() called while the state machine thread is parked at successive source lines of handling an inbound request (sweep over up to 330 positions x request kinds).",
    "C09": " Also: the same bytes decoded again after the first decoded copy was edited in place.",
    "C10": " Also: the out-of-domain byte values arriving on the wire under the class's (vendor, code) with every M/P combination (alone, in a message, as a Grouped member): refused or dispatched, never kept as a generic AVP; first-use decode sweep for the dispatch clause.",
    "C11": " Also: Failed-AVP in the alphabet, has_avp() in the short-name form, rename targets with a leading underscore.",
    "C12": " Also: request histories on the application object (T-flagged re-transmission under a new Hop-by-Hop id, same ids, other ids).",
    "C13": " Also: a long life of one application object (45-130 requests, mostly failing) under the controlled scheduler.",
    "C14": " Also: answers handed over through the real create_message_thread, answer content variety (non-ASCII Error-Message, binary User-Name, E bit, decoded from bytes), and a sweep with the library's answer thread parked at successive lines / lingering after its function returned while the next answer arrives.",
    "C15": " Also: a random source that derives values from earlier ones (octets across the boundary of two earlier values, reversals, successors) with a directed sweep.",
    "C16": " Also: a node object created between generations; Session-Ids with decomposed / compatibility / BOM text supplied as bytes.",
    "C17": " Also: look-alike AVPs around the Result-Code (vendor-specific code 268, top-level 298, unknown AVP) and a mid-call concurrency sweep (one thread parked at each source line of a classification after a warm-up while another classifies the same code).",
    "C18": " Also: long digit strings at boundary lengths up to 65 538 and the mid-call concurrency sweep (encode/decode/MSISDN/STN-SR).",
    "C19": " Also: a YAML file rewritten and read again at the same path.",
    "C20": " Also: addresses whose packed form starts like a family code (0.1.x.x, 0.2.x.x, 1:2::) and the mid-call concurrency sweep (Time, Address, flag words).",
}
for _pid, _t in ADD6.items():
    CHECKS[_pid]["text"] += _t

ALL = [f"C{i:02d}" for i in range(1, 21)]

def main():
    checks = []
    for pid in ALL:
        if pid not in CHECKS:
            continue
        c = CHECKS[pid]
        checks.append({
            "property_id": pid,
            "quick_cmd": f"./check {pid} --tier quick",
            "thorough_cmd": f"./check {pid} --tier thorough",
            "evidence_file": f"/verif/evidence/{pid}.json",
            "replay_cmd_template": f"./check {pid} --replay {{path}}",
            "engine": "vf",
            "level_claimed": {"category": c["category"], "text": c["text"], "design_ref": c["design_ref"]},
            "level_note": c["note"],
            "technique": c["technique"],
        })
    na = [{"property_id": pid, "reason": "check not built yet in this round (planned, see DESIGN.md section 4); not claimed until it runs"}
          for pid in ALL if pid not in CHECKS]
    man = {
        "version": 1,
        "setup_cmd": "./tools/setup.sh",
        "hooks": {
            "guard": "BROMELIA_VERIF",
            "enable": "no source hooks: the harness substitutes module-level names (socket, selectors, threading, time, queue, os.urandom) inside bromelia's modules from the check process; BROMELIA_VERIF is reserved and unused",
            "baseline_off_cmd": "./tools/baseline.py",
            "source_commits": [],
            "add_only": True,
        },
        "engines": [{"name": "vf", "path": "/verif/vf", "serves_properties": sorted(CHECKS),
                     "kind_free_text": "Hypothesis property-based / stateful testing, exhaustive enumeration of finite domains, atheris fuzzing, harness-owned scheduler; independent reference codec as oracle"}],
        "checks": checks,
        "notes": "All checks import bromelia from /repo's working tree (pure Python; nothing to build). Exit 2 = harness error, never a violation.",
        "not_applicable": na,
    }
    path = os.path.join(VERIF, "MANIFEST.json")
    with open(path, "w") as f:
        json.dump(man, f, indent=1)
    try:
        import jsonschema
        jsonschema.validate(man, json.load(open("/root/.vp/MANIFEST.schema.json")))
        print("MANIFEST.json valid;", len(checks), "checks,", len(na), "not_applicable")
    except ImportError:
        r = subprocess.run(["python3-vt", "-c", "import json,jsonschema,sys; jsonschema.validate(json.load(open(sys.argv[1])), json.load(open('/root/.vp/MANIFEST.schema.json'))); print('MANIFEST.json valid')", path])
        print(len(checks), "checks,", len(na), "not_applicable")
        return r.returncode
    return 0

if __name__ == "__main__":
    sys.exit(main())

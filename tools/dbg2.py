import sys, json
sys.path.insert(0,'/verif')
from vf import common
common.bootstrap()
from vf import refdict; refdict.all_classes()
from vf.checks import c03_live
import vf.world as W
orig=W.World.__exit__
def ex(self,*a):
    a_=self.d._association; t=a_.transport if a_ else None
    print("STATE", self.state())
    print("threads", [(x.name,x.state,x.blocked_on,repr(x.exc)[:100]) for x in self.sched.threads])
    if a_ is not None and t is not None:
        print("assoc: recvq", len(a_._recv_messages._d), "pp", len(a_.postprocess_recv_messages._d), "remainder", len(a_._recv_stream_remainder), "stream", len(t._recv_data_stream), "ready", a_.postprocess_recv_messages_ready._flag)
    return orig(self,*a)
c03_live.World.__exit__=ex
import bromelia.setup as su
_l=su.DiameterMessage.load
def spyload(stream):
    try:
        r=_l(stream); print("LOAD", len(stream), [hex(m.header.get_hop_by_hop()) for m in r]); return r
    except BaseException as e:
        print("LOAD-EXC", len(stream), repr(e)[:80]); raise
su.DiameterMessage.load=staticmethod(spyload)
r=json.load(open(sys.argv[1]))
print(c03_live.run_one(r['case']))

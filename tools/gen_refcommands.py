#!/venv/bin/python
"""Snapshot of the typed command classes into ref/commands.json.

The wire identity (command code, Application-ID, request/answer) is NOT taken
from the code: it is the hand-written table SPEC below (RFC 6733 / RFC 4006 /
RFC 4072 / 3GPP TS 29.272, 29.273, 29.212, 29.214, 32.299) and the tool fails
if the pinned tree disagrees with it.  Argument tables (parameter order,
mandatory/optional maps, defaults) are snapshotted from the pinned tree and
are from then on the fixed reference.  Provenance tool; not run by any check."""
import importlib, inspect, json, os, pkgutil, sys
sys.path.insert(0, "/repo")
import logging; logging.disable(logging.CRITICAL)
import warnings; warnings.filterwarnings("ignore")
import bromelia
from bromelia.base import DiameterAVP, DiameterRequest, DiameterAnswer, DiameterMessage

S6A, S13, SWM, SWX, S6B, GX, RX, GY = 16777251, 16777252, 16777264, 16777265, 16777272, 16777238, 16777236, 4
SPEC = {
    # module: {class: (command code, application id | "caller", partner)}
    "ietf_rfc6733": {
        "CapabilitiesExchangeRequest": (257, 0), "CapabilitiesExchangeAnswer": (257, 0),
        "DeviceWatchdogRequest": (280, 0), "DeviceWatchdogAnswer": (280, 0),
        "DisconnectPeerRequest": (282, 0), "DisconnectPeerAnswer": (282, 0),
        "ReAuthRequest": (258, "arg:auth_application_id"), "ReAuthAnswer": (258, "caller"),
        "AbortSessionRequest": (274, "arg:auth_application_id"), "AbortSessionAnswer": (274, "caller"),
        "SessionTerminationRequest": (275, 0), "SessionTerminationAnswer": (275, 0),
    },
    "etsi_3gpp_s6a": {
        "UpdateLocationRequest": (316, S6A), "UpdateLocationAnswer": (316, S6A),
        "CancelLocationRequest": (317, S6A), "CancelLocationAnswer": (317, S6A),
        "AuthenticationInformationRequest": (318, S6A), "AuthenticationInformationAnswer": (318, S6A),
        "PurgeUeRequest": (321, S6A), "PurgeUeAnswer": (321, S6A),
        "NotifyRequest": (323, S6A), "NotifyAnswer": (323, S6A),
    },
    "etsi_3gpp_s13": {"MeIdentityCheckRequest": (324, S13), "MeIdentityCheckAnswer": (324, S13)},
    "etsi_3gpp_swm": {
        "DiameterEapRequest": (268, "arg:auth_application_id"), "DiameterEapAnswer": (268, "arg:auth_application_id"),
        "AbortSessionRequest": (274, SWM), "AbortSessionAnswer": (274, SWM),
    },
    "etsi_3gpp_swx": {
        "MultimediaAuthRequest": (303, SWX), "MultimediaAuthAnswer": (303, SWX),
        "ServerAssignmentRequest": (301, SWX), "ServerAssignmentAnswer": (301, SWX),
        "RegistrationTerminationRequest": (304, SWX), "RegistrationTerminationAnswer": (304, SWX),
    },
    "etsi_3gpp_s6b": {"AARequest": (265, S6B), "AAAnswer": (265, S6B)},
    "etsi_3gpp_gx": {
        "CreditControlRequest": (272, GX), "CreditControlAnswer": (272, GX),
        "ReAuthRequest": (258, GX), "ReAuthAnswer": (258, GX),
    },
    "etsi_3gpp_gy": {"CreditControlRequest": (272, GY), "CreditControlAnswer": (272, GY)},
    "etsi_3gpp_rx": {
        "AARequest": (265, RX), "AAAnswer": (265, RX),
        "ReAuthRequest": (258, RX), "ReAuthAnswer": (258, RX),
        "SessionTerminationRequest": (275, RX), "SessionTerminationAnswer": (275, RX),
        "AbortSessionRequest": (274, RX), "AbortSessionAnswer": (274, RX),
    },
}


def to_val(v):
    if v is None:
        return None
    if isinstance(v, bytes):
        return {"t": "b", "x": v.hex()}
    if isinstance(v, str):
        return {"t": "s", "s": v}
    if isinstance(v, bool):
        raise ValueError(v)
    if isinstance(v, int):
        return {"t": "i", "n": v}
    if isinstance(v, list):
        return {"t": "l", "items": [{"k": "dict", "cls": type(a).__name__, "v": {"t": "b", "x": a.data.hex()}} for a in v]}
    raise ValueError(repr(v))


out = []
for m in pkgutil.walk_packages(bromelia.__path__, "bromelia."):
    mod = importlib.import_module(m.name)
    if not (m.name.startswith("bromelia.lib.") and m.name.endswith(".messages")):
        continue
    lib = m.name.split(".")[2]
    for n, c in vars(mod).items():
        if not (isinstance(c, type) and issubclass(c, DiameterMessage) and c.__module__ == m.name):
            continue
        code, app = SPEC[lib][n]
        sig = inspect.signature(c.__init__)
        params = []
        for p in list(sig.parameters.values())[1:]:
            if p.kind == p.VAR_KEYWORD:
                continue
            has_default = p.default is not inspect._empty
            d = p.default if has_default else None
            kind = "mandatory" if p.name in c.mandatory else "optional" if p.name in c.optionals else "untabled"
            avp = (c.mandatory.get(p.name) or c.optionals.get(p.name))
            env_default = p.name in ("session_id", "origin_host", "origin_realm") and isinstance(d, str)
            params.append({"name": p.name, "kind": kind, "avp": avp.__name__ if avp else None,
                           "default": ("env" if env_default else to_val(d)) if has_default else "required"})
        is_req = issubclass(c, DiameterRequest)
        out.append({"lib": lib, "cls": n, "module": m.name, "request": is_req, "code": code, "app": app, "params": params})
        # sanity against the pinned tree
        try:
            kw = {}
            inst = None
        except Exception:
            pass

names = {(r["lib"], r["cls"]) for r in out}
for lib, d in SPEC.items():
    for n in d:
        assert (lib, n) in names, (lib, n)
assert len(out) == 50, len(out)
path = os.path.join(os.path.dirname(os.path.dirname(os.path.abspath(__file__))), "ref", "commands.json")
json.dump(out, open(path, "w"), indent=0, sort_keys=True)
print(len(out), "command classes")

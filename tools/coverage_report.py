#!/venv/bin/python
"""Diagnostic: which executable lines of /repo/bromelia were reached by the checks.

  VERIF_COV_DIR=/tmp/cov ./check C04 --tier quick ; ... ; tools/coverage_report.py /tmp/cov [file-substring]

Prints per file: executable lines, lines reached, and the unreached line ranges (with source when a file filter is given).
Not part of any verdict; used to find behaviour behind a property that no generator reaches yet."""
import glob, os, sys, dis

REPO = os.environ.get("VERIF_REPO", "/repo")
d = sys.argv[1]
flt = sys.argv[2] if len(sys.argv) > 2 else None
hit = {}
for f in glob.glob(os.path.join(d, "*.lines")):
    for l in open(f):
        l = l.strip()
        if ":" in l:
            fn, n = l.rsplit(":", 1)
            try:
                hit.setdefault(fn, set()).add(int(n))
            except ValueError:
                pass


def exec_lines(path):
    src = open(path).read()
    out = set()
    def walk(co):
        for _, _, ln in co.co_lines():
            if ln:
                out.add(ln)
        for c in co.co_consts:
            if hasattr(c, "co_lines"):
                walk(c)
    walk(compile(src, path, "exec"))
    return out, src.splitlines()


tot = tot_hit = 0
for root, _, files in os.walk(os.path.join(REPO, "bromelia")):
    for fn in sorted(files):
        if not fn.endswith(".py"):
            continue
        path = os.path.join(root, fn)
        rel = os.path.relpath(path, os.path.join(REPO, "bromelia"))
        if flt and flt not in rel:
            continue
        ex, src = exec_lines(path)
        h = hit.get(rel, set()) & ex
        tot += len(ex); tot_hit += len(h)
        miss = sorted(ex - h)
        print(f"{rel}: {len(h)}/{len(ex)} lines reached")
        if flt:
            for n in miss:
                print(f"   {n:5d}  {src[n-1].rstrip()[:140]}")
print(f"TOTAL {tot_hit}/{tot}")

#!/venv/bin/python
"""Evaluate one seeded change against the checks.

  tools/eval_seeded.py <dir with patch.diff, demo.py, meta.json> [--checks C01,C02] [--tier quick] [--skip-confirm]

1. confirm, in a scratch worktree of /repo (outside /repo and /verif, removed afterwards): demo passes on the
   clean tree, patch applies, demo fails with it, the pinned suite still passes (full baseline);
2. apply the patch to /repo, run the named checks (default: the property's own check), undo the patch.
Prints a JSON summary."""
import json, os, shutil, subprocess, sys, tempfile

VERIF = os.path.dirname(os.path.dirname(os.path.abspath(__file__)))


def sh(cmd, cwd=None, env=None, timeout=3600):
    p = subprocess.run(cmd, cwd=cwd, env=env, capture_output=True, text=True, timeout=timeout)
    return p.returncode, (p.stdout + p.stderr)


def main():
    d = os.path.abspath(sys.argv[1])
    args = sys.argv[2:]
    checks = None
    tier = "quick"
    skip_confirm = "--skip-confirm" in args
    for i, a in enumerate(args):
        if a == "--checks":
            checks = args[i + 1].split(",")
        if a == "--tier":
            tier = args[i + 1]
    meta = json.load(open(os.path.join(d, "meta.json")))
    pid = meta["property"]
    checks = checks or [pid]
    patch = os.path.join(d, "patch.diff")
    demo = os.path.join(d, "demo.py" if os.path.exists(os.path.join(d, "demo.py")) else "demo_test.py")
    out = {"dir": d, "property": pid, "summary": meta.get("summary", "")[:200]}
    if "--private" not in args and "--confirm-only" not in args:
        assert not subprocess.run(["git", "-C", "/repo", "status", "--porcelain", "--untracked-files=no"], capture_output=True, text=True).stdout.strip(), "/repo dirty"
    if not skip_confirm:
        wt = tempfile.mkdtemp(prefix="seeded-confirm-", dir="/tmp")
        os.rmdir(wt)
        try:
            rc, o = sh(["git", "-C", "/repo", "worktree", "add", "-q", "--detach", wt, "HEAD"])
            assert rc == 0, o
            shutil.copytree(d, os.path.join(wt, "_m"))
            env = dict(os.environ, PYTHONDONTWRITEBYTECODE="1")
            rc0, o0 = sh(["/venv/bin/python", "_m/" + os.path.basename(demo)], cwd=wt, env=env, timeout=600)
            rca, oa = sh(["git", "-C", wt, "apply", patch])
            rc1, o1 = sh(["/venv/bin/python", "_m/" + os.path.basename(demo)], cwd=wt, env=env, timeout=600)
            rcb, ob = sh(["/venv/bin/python", os.path.join(VERIF, "tools", "baseline.py")] + (["--fast"] if "--fast-suite" in args else []),
                         env=dict(env, VERIF_BASELINE_CWD=wt), timeout=1200)
            out.update(demo_clean_exit=rc0, patch_applies=(rca == 0), demo_mutant_exit=rc1, suite=ob.strip().splitlines()[-1] if ob.strip() else "?",
                       confirmed=(rc0 == 0 and rca == 0 and rc1 != 0 and "missing=0" in ob))
            if not out["confirmed"]:
                out["confirm_detail"] = (o0[-300:], oa[-300:], o1[-300:])
        finally:
            sh(["git", "-C", "/repo", "worktree", "remove", "--force", wt])
            shutil.rmtree(wt, ignore_errors=True)
    if "--confirm-only" in args:
        print(json.dumps(out, indent=1))
        return
    if "--private" in args:
        # run the checks against a private worktree with the patch applied (VERIF_REPO), leaving /repo alone
        pw = tempfile.mkdtemp(prefix="seeded-private-", dir="/tmp")
        os.rmdir(pw)
        sh(["git", "-C", "/repo", "worktree", "add", "-q", "--detach", pw, "HEAD"])
        rc, o = sh(["git", "-C", pw, "apply", patch])
        assert rc == 0, o
        results = {}
        try:
            for c in checks:
                rc, o = sh([os.path.join(VERIF, "check"), c, "--tier", tier], cwd=VERIF, env=dict(os.environ, VERIF_REPO=pw), timeout=7200)
                sigs = [l.strip()[len("signature: "):] for l in o.splitlines() if l.strip().startswith("signature:")]
                results[c] = {"exit": rc, "signatures": sigs[:8]}
        finally:
            sh(["git", "-C", "/repo", "worktree", "remove", "--force", pw])
        out["checks"] = results
        out["caught_by"] = [c for c, r in results.items() if r["exit"] == 1]
        out["mode"] = "private worktree (VERIF_REPO)"
        print(json.dumps(out, indent=1))
        return
    # run the checks against /repo with the patch applied
    rc, o = sh(["git", "-C", "/repo", "apply", patch])
    assert rc == 0, o
    results = {}
    try:
        for c in checks:
            # sensitivity runs only ask "is it caught": the minimisation of the failing case is skipped (VERIF_NO_SHRINK)
            rc, o = sh([os.path.join(VERIF, "check"), c, "--tier", tier], cwd=VERIF, env=dict(os.environ, VERIF_NO_SHRINK="1"), timeout=7200)
            sigs = [l.strip()[len("signature: "):] for l in o.splitlines() if l.strip().startswith("signature:")]
            results[c] = {"exit": rc, "signatures": sigs[:8]}
    finally:
        sh(["git", "-C", "/repo", "checkout", "--", "."])
        sh("rm -f " + os.path.join(VERIF, "replays", "*", "new-*.json"), cwd=VERIF) if False else subprocess.run("rm -f %s/replays/*/new-*.json" % VERIF, shell=True)
    out["checks"] = results
    out["caught_by"] = [c for c, r in results.items() if r["exit"] == 1]
    print(json.dumps(out, indent=1))


if __name__ == "__main__":
    main()

#!/venv/bin/python
"""One-off snapshot of the AVP dictionary from the pinned tree into
ref/avp_dictionary.json.  After the audit (see DESIGN.md C10) the JSON file is
the fixed published reference; this tool is kept for provenance only and is NOT
run by any check."""
import importlib, json, os, pkgutil, re, sys, datetime
sys.path.insert(0, "/repo")
import logging; logging.disable(logging.CRITICAL)
import warnings; warnings.filterwarnings("ignore")
import bromelia
for m in pkgutil.walk_packages(bromelia.__path__, "bromelia."):
    importlib.import_module(m.name)
from bromelia.base import DiameterAVP

TYPES = ["EnumeratedType", "Integer32Type", "Unsigned32Type", "Unsigned64Type", "GroupedType", "AddressType", "TimeType",
         "UTF8StringType", "DiameterIdentityType", "DiameterURIType", "OctetStringType"]


def dtype(c):
    for b in c.__mro__:
        if b.__module__ == "bromelia.types" and b.__name__ in TYPES:
            return b.__name__[:-4]
    raise ValueError(c)


def sample(c):
    t = dtype(c)
    if t == "Enumerated":
        return c.values[0]
    if t == "Integer32":
        return b"\x00\x00\x00\x01"
    if t == "Unsigned32":
        return 1
    if t == "Unsigned64":
        return 1
    if t == "Grouped":
        return [sample_obj(m) for m in c.mandatory.values()]
    if t == "Address":
        return "10.0.0.1"
    if t == "Time":
        return datetime.datetime(2020, 1, 1)
    if t == "DiameterURI":
        return "aaa://host.example.com"
    return b"x"


def sample_obj(c):
    return c(sample(c))


docs = {}
for line in open("/repo/docs/list-of-avps.md"):
    m = re.match(r"\|(\d+)\|`([^`]+)`\|(\d+)\|(\w+)\|([^|]*)\|([^|]*)\|\[([^\]]+)\][^|]*\|(\w+)", line)
    if m:
        docs[m.group(8)] = dict(row=int(m.group(1)), name=m.group(2), code=int(m.group(3)), type=m.group(4), path=m.group(7))

rows = []
seen = set()
for c in DiameterAVP.__subclasses__():
    key = (c.__module__, c.__name__)
    if key in seen:
        continue
    seen.add(key)
    o = sample_obj(c)
    row = dict(cls=c.__name__, module=c.__module__, code=int.from_bytes(c.code, "big"),
               vendor=int.from_bytes(c.vendor_id, "big") if c.vendor_id else None,
               type=dtype(c), flags=o.get_flags())
    if row["type"] == "Enumerated":
        row["values"] = [int.from_bytes(v, "big") for v in c.values]
    if row["type"] == "Grouped":
        row["mandatory"] = {k: v.__name__ for k, v in c.mandatory.items()}
        row["optionals"] = {k: v.__name__ for k, v in c.optionals.items()}
    d = docs.get(c.__name__)
    row["name"] = d["name"] if d else None
    row["doc_type"] = d["type"] if d else None
    row["doc_code"] = d["code"] if d else None
    rows.append(row)
rows.sort(key=lambda r: (r["vendor"] or 0, r["code"], r["cls"]))
out = os.path.join(os.path.dirname(os.path.dirname(os.path.abspath(__file__))), "ref", "avp_dictionary.json")
json.dump(rows, open(out, "w"), indent=0, sort_keys=True)
print(len(rows), "rows;", sum(1 for r in rows if r["name"]), "documented")
for r in rows:
    if r["doc_code"] is not None and (r["doc_code"] != r["code"] or r["doc_type"] != r["type"]):
        print("DOC MISMATCH", r["cls"], r["code"], r["type"], "docs:", r["doc_code"], r["doc_type"])
for k in docs:
    if k not in {r["cls"] for r in rows}:
        print("DOC ROW WITHOUT CLASS", k)

#!/bin/sh
# Final evaluation of sub-agent changes on /repo itself (git apply, run the checks, git checkout -- .), sequentially.
# usage: tools/eval_final.sh <root> [--reuse-confirm]     results in <dir>/result.json
cd "$(dirname "$0")/.."
root=$1; reuse=$2
extra_checks() {   # sibling checks known to be relevant for a change (the property's own check always runs)
  case "$1" in
    */evalroot6/C01/mutant_*) echo "C01,C11";;
    */evalroot6/C06/mutant_B) echo "C06,C08";;
    */evalroot6/C08/mutant_B) echo "C08,C06";;
    */evalroot6/C09/mutant_B) echo "C09,C02";;
    */evalroot6/C10/mutant_B) echo "C10,C02";;
    */evalroot5/C02/mutant_A) echo "C02,C01";;
    */evalroot5/C09/mutant_A) echo "C09,C10,C02";;
    */evalroot5/C07/mutant_*) echo "C07,C06";;
    */C06/mutant_B) echo "C06,C08";;
    */C09/mutant_A) echo "C09,C15";;
    */C01/mutant_B) echo "C01,C20";;
    */C20/mutant_A) echo "C20,C01";;
    */C10/mutant_B) echo "C10,C02";;
    *) echo "";;
  esac
}
for d in "$root"/C*/mutant_*; do
  [ -f "$d/patch.diff" ] || continue
  [ -f "$d/result.final.json" ] && continue
  echo "== $d"
  ck=$(extra_checks "$d"); args=""
  [ -n "$ck" ] && args="--checks $ck"
  if [ "$reuse" = "--reuse-confirm" ] && [ -s "$d/result.json" ] && grep -q '"confirmed": true' "$d/result.json"; then
    cp "$d/result.json" "$d/result.private.json"
    ./tools/eval_seeded.py "$d" --skip-confirm $args > "$d/result.tmp.json" 2> "$d/result.err" || { echo "   eval failed: $(tail -1 $d/result.err)"; continue; }
    /venv/bin/python - "$d" <<'P'
import json, sys
d = sys.argv[1]
old = json.load(open(d + "/result.private.json")); new = json.load(open(d + "/result.tmp.json"))
for k in ("demo_clean_exit", "patch_applies", "demo_mutant_exit", "suite", "confirmed"):
    new[k] = old.get(k)
json.dump(new, open(d + "/result.final.json", "w"), indent=1)
P
  else
    ./tools/eval_seeded.py "$d" $args > "$d/result.final.json" 2> "$d/result.err" || { echo "   eval failed: $(tail -1 $d/result.err)"; rm -f "$d/result.final.json"; continue; }
  fi
  cp "$d/result.final.json" "$d/result.json"
  /venv/bin/python - "$d/result.json" <<'P'
import json, sys
r = json.load(open(sys.argv[1]))
print("   confirmed=%s caught_by=%s %s" % (r.get("confirmed"), r.get("caught_by"), {k: v["signatures"][:2] for k, v in r.get("checks", {}).items()}))
P
done

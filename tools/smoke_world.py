import sys, time
sys.path.insert(0,'/verif')
from vf import common
common.bootstrap()
from vf import refdict; refdict.all_classes()
from vf.world import *
for role in ("client","server"):
    t=time.time()
    with World(role=role, apps=["s6a"]) as w:
        ok = w.open_connection()
        print(role, "open:", ok, "state:", w.state(), "steps", w.sched.steps, "vtime", round(w.sched.now,3), "switches", w.sched.switches)
        print("  sent:", [(m["cmd"], hex(m["flags"])) for m in w.sent_messages()])
        print("  threads:", [(t.name,t.state,t.blocked_on) for t in w.sched.threads])
        # deliver an app request
        got=[]
        w.call("consumer", lambda: got.append(w.d.get_message()))
        w.feed(app_request(5,6, dest_realm=LOCAL["realm"]))
        r=w.run(lambda: bool(got), 5.0)
        print("  deliver:", r, [ (g.header.get_command_code(), g.header.get_hop_by_hop()) for g in got])
        # watchdog answer
        w.feed(peer_dwr(77,88))
        r=w.run(lambda: any(m["cmd"]==280 for m in w.sent_messages()), 5.0)
        print("  dwa:", r, [(m["cmd"],m["hbh"]) for m in w.sent_messages() if m["cmd"]==280])
        # close
        w.call("closer", lambda: w.d.close())
        r=w.run(lambda: any(m["cmd"]==282 for m in w.sent_messages()), 5.0)
        dpr=[m for m in w.sent_messages() if m["cmd"]==282]
        print("  dpr:", r, len(dpr))
        w.feed(peer_dpa(dpr[0]["hbh"], dpr[0]["e2e"]))
        r=w.run(lambda: w.state()=="Closed" and not w.sched.live_threads(), 20.0)
        print("  closed:", r, w.state(), [(t.name,t.state,t.blocked_on) for t in w.sched.live_threads()], "vtime", round(w.sched.now,3))
    print("  unreaped:", w.unreaped, "wall", round(time.time()-t,3))

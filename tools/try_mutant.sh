#!/bin/sh
# usage: tools/try_mutant.sh <mutant dir> <check ids...>   - applies the patch in a private worktree and runs the checks with VERIF_REPO
cd "$(dirname "$0")/.."
d=$1; shift
wt=$(mktemp -d /tmp/mw-XXXXXX); rmdir $wt
git -C /repo worktree add -q --detach $wt HEAD && git -C $wt apply $d/patch.diff || { echo "apply failed"; exit 2; }
for id in "$@"; do
  VERIF_OUT=/tmp/mw-out VERIF_REPO=$wt ./check $id --tier ${TIER:-quick} 2>&1 | grep -E "signature|^$id tier|HARNESS" | cut -c1-200 | head -8
done
git -C /repo worktree remove --force $wt

import sys, json, time
sys.path.insert(0,'/verif')
from vf import common
common.bootstrap()
from vf.checks import c14
case={"k":1,"hbh":[0x01020304],"perm":[0],"delays":[0.0],"extras":[],"sched":[],"lines":False,"stagger":0.0,"hold":0}
t=time.time(); vs,info=c14.run_one(case); print(vs, info, round(time.time()-t,2))

import sys, json
sys.path.insert(0,'/verif')
from vf import common
common.bootstrap()
from vf import refdict; refdict.all_classes()
from vf.checks import c08
import vf.world as W
orig=W.World.__exit__
def ex(self,*a):
    print("STATE", self.state(), "now", self.sched.now, "steps", self.sched.steps)
    print("threads", [(t.name,t.state,t.blocked_on,repr(t.exc)[:80]) for t in self.sched.threads])
    print("socks", [(s.fd,s.kind,s.state,s.closed,len(s.inbox),len(s.outbox)) for s in self.net.socks])
    print("sent", [(m['cmd'],hex(m['flags'])) for m in self._safe_sent()])
    a=self.d._association; t=a.transport
    print("assoc: recvq", len(a._recv_messages._d), "remainder", len(a._recv_stream_remainder), "stream", len(t._recv_data_stream), "avail", t._recv_data_available._flag, "lock", a.lock._locked, a.lock._owner, "tlock", t.lock._locked, "stop", a._stop_threads, t._stop_threads, "mask", t.events_mask)
    print("log", list(self.sched.log)[-14:])
    return orig(self,*a)
c08.World.__exit__=ex
import bromelia.process as pr
_o=pr.ProcessCapabilityExchange.__init__
def spy(self, association, message):
    _o(self, association, message)
    print("CEX", hex(message.header.get_flags()), "valid", self.is_valid, self.checklist_mandatory_avps, [ (a.get_code(), a.get_flags()) for a in message.avps])
pr.ProcessCapabilityExchange.__init__=spy
import bromelia.setup as su
_l=su.DiameterMessage.load
def spyload(stream):
    try:
        r=_l(stream); print("LOAD", len(stream), [m.header.get_command_code() for m in r]); return r
    except BaseException as e:
        print("LOAD-EXC", len(stream), repr(e)); raise
su.DiameterMessage.load=staticmethod(spyload)
_g=su.DiameterAssociation._DiameterAssociation__get_complete_messages_length
def spyg(self, ds):
    r=_g(self, ds); print("COMPLETE", len(ds), "->", r, "remainder-before", len(self._recv_stream_remainder)); return r
su.DiameterAssociation._DiameterAssociation__get_complete_messages_length=spyg
r=json.load(open(sys.argv[1]))
print(c08.run_one(r['case']))

import sys, json, glob
sys.path.insert(0,'/verif')
from vf import common
common.bootstrap()
from vf import refdict; refdict.all_classes()
from vf.checks import c08
import vf.world as W
orig=W.World.__exit__
def ex(self,*a):
    a_=self.d._association
    t=a_.transport if a_ else None
    print("STATE", self.state(), "transport", t, t and (t._stop_threads, t.is_connected, getattr(t,'error_has_raised',None)), "assoc stop", a_ and a_._stop_threads, "active", a_ and a_.state_is_active)
    print("psm running", self.d._peer_state_machine.is_running, "cur", type(self.d._peer_state_machine.current_state).__name__, getattr(self.d._peer_state_machine.current_state,'next_state',None))
    print("threads", [(t.name,t.state,t.blocked_on,repr(t.exc)) for t in self.sched.threads])
    import traceback
    for t in self.sched.threads:
        if t.exc is not None:
            print("EXC in", t.name); traceback.print_exception(type(t.exc), t.exc, t.exc.__traceback__)
    print("log tail", list(self.sched.log)[-12:])
    return orig(self,*a)
c08.World.__exit__=ex
f=sorted(glob.glob('/verif/replays/C08/new-*.json'))[int(sys.argv[1])]
r=json.load(open(f)); print(r['sig'])
print(c08.run_one(r['case']))

#!/venv/bin/python
"""Writes the committed regression replays (replays/<ID>/reg-*.json): one minimal case per repaired defect.
Each must pass on the current tree and fail on the pinned commit (checked by tools/check_regressions.sh)."""
import json, os

VERIF = os.path.dirname(os.path.dirname(os.path.abspath(__file__)))
Z = {"e": None, "hbh": 1, "e2e": 1, "hbh2": 2, "e2e2": 2}


def ev(e, **kw):
    d = dict(Z, e=e)
    d.update(kw)
    return d


_ULR = {"kind": "typed", "lib": "etsi_3gpp_s6a", "cls": "UpdateLocationRequest", "extras": [], "omit": None,
        "args": [["destination_realm", {"t": "b", "x": "726561"}], ["user_name", {"t": "b", "x": "303031"}], ["visited_plmn_id", {"t": "b", "x": "00f110"}]]}
_ULA = {"kind": "typed", "lib": "etsi_3gpp_s6a", "cls": "UpdateLocationAnswer", "extras": [], "omit": None, "args": []}

REG = {
    "C18": {
        "even-length-string": {"kind": "string", "s": "12"},
        "stnsr-even": {"kind": "avp", "n": 22, "as_str": True, "cls": "StnSrAVP"},
        "msisdn-12-digits": {"kind": "avp", "n": 551199887766, "as_str": False, "cls": "MsisdnAVP"},
    },
    "C17": {
        "unable-to-comply-5012": {"n": 5012, "via": "answer"},
        "3008-decoded": {"n": 3008, "via": "decoded"},
        "4181": {"n": 4181, "via": "answer"},
    },
    "C10": {
        "unsigned32-str": {"kind": "bad", "cls": "ResultCodeAVP", "value_kind": "str"},
        "unsigned64-none": {"kind": "bad", "cls": "ValueDigitsAVP", "value_kind": "None"},
        "unsigned64-negative": {"kind": "bad", "cls": "CcTotalOctetsAVP", "value_kind": "int-negative"},
        "integer32-str4": {"kind": "bad", "cls": "ExponentAVP", "value_kind": "str-4"},
        "tables": {"kind": "tables"},
    },
    "C19": {
        "yaml-transport-leak": {"kind": "yaml", "specs": [
            {"applications": [], "mode": "Client", "watchdog_timeout": 30, "transport_type": "sctp",
             "local": {"ip_address": "10.0.0.1", "hostname": "a", "realm": "r", "port": 3868},
             "peer": {"ip_address": "10.0.0.2", "hostname": "b", "realm": "r", "port": 3868}},
            {"applications": [], "mode": "Server", "watchdog_timeout": 30,
             "local": {"ip_address": "10.0.0.1", "hostname": "a", "realm": "r", "port": 3869},
             "peer": {"ip_address": "10.0.0.2", "hostname": "b", "realm": "r", "port": 3869}}]},
    },
    "C16": {
        "two-updates-one-second": {"ops": [{"op": "typed", "ident": 1, "cls": "ulr"}, {"op": "update", "msg": 0, "ident": 3},
                                           {"op": "typed", "ident": 0, "cls": "aia"}, {"op": "update", "msg": 1, "ident": 3}]},
        "reissue-after-switch": {"ops": [{"op": "sid", "ident": 3}, {"op": "typed", "ident": 3, "cls": "ulr"},
                                         {"op": "update", "msg": 0, "ident": 2}, {"op": "sid", "ident": 3}]},
    },
    "C11": {
        "pop-second-of-equal": {"container": "loaded", "ops": [{"op": "pop", "i": 1}]},
        "suffix-reuse": {"container": "message", "ops": [{"op": "append", "t": 6}, {"op": "append", "t": 6}, {"op": "append", "t": 6},
                                                          {"op": "pop", "i": 1}, {"op": "append", "t": 6}]},
        "rename-then-cleanup": {"container": "message", "ops": [{"op": "append", "t": 0}, {"op": "update_key", "i": 0, "new": "alias"}, {"op": "cleanup"}]},
        "setitem": {"container": "cer", "ops": [{"op": "setitem", "i": 4, "t": 0}]},
        "bulk-update-two-objects": {"container": "ulr", "ops": [{"op": "update_avps", "key": "origin_host", "value": "host-c.example.org"}]},
        "bulk-update-unknown": {"container": "message", "ops": [{"op": "append", "t": 6}, {"op": "update_avps", "key": "unknown", "value": "zzz"}]},
    },
    "C03": {
        "message-length-0": {"hex": "01000000" + "80000101" + "00000000" * 3},
        "message-length-8": {"hex": "01000008" + "80000101" + "00000000" * 3 + "0000010840000009" + "61000000"},
        "one-byte": {"hex": "01"},
        "nest-500": {"base": None, "mut": {"k": "nest", "depth": 500, "code": 279, "vendor": None}},
        "live-misaddressed": {"kind": "live", "role": "client", "state": "open", "input": "misaddressed", "mut": None, "cuts": [], "hbh": 9},
        "live-unknown-enumerator": {"kind": "live", "role": "server", "state": "open", "input": "unknown-enumerator", "mut": None, "cuts": [7, 30], "hbh": 9},
    },
    "C04": {
        "split-in-header": {"role": "client", "msgs": [{"kind": "req", "size": 17}, {"kind": "ans", "size": 100}], "seg": "in-header", "cuts": [],
                            "consumers": 1, "sched": [], "lines": False, "consumers_first": True, "holds": []},
        "bytewise": {"role": "server", "msgs": [{"kind": "req", "size": 3}], "seg": "bytewise", "cuts": [], "consumers": 1, "sched": [],
                     "lines": False, "consumers_first": False, "holds": []},
        "two-consumers": {"role": "server", "msgs": [{"kind": "req", "size": 0}] * 5, "seg": "aligned", "cuts": [], "consumers": 2, "sched": [],
                          "lines": False, "consumers_first": True, "holds": []},
    },
    "C05": {
        "batch-limit-order": {"role": "client", "subs": [{"api": "send_message", "msgs": [{"kind": "req", "size": 90000}, {"kind": "req", "size": 90000},
                              {"kind": "req", "size": 90000}, {"kind": "ans", "size": 1}]}], "pw": "full", "sizes": [], "inbound": [], "sched": [],
                              "lines": False, "holds": []},
    },
    "C06": {
        "misaddressed-kills-psm": {"role": "client", "napps": 1, "backlog": 0, "events": [ev("ack"), ev("cea"), ev("misaddressed-req"), ev("dwr", hbh=7, e2e=8)]},
    },
    "C08": {
        "refused": {"role": "client", "point": "connecting", "cause": "refused", "sched": [], "lines": False, "n_queued": 1, "holds": []},
        "fin-while-awaiting-cea": {"role": "client", "point": "wait-cea", "cause": "peer-fin", "sched": [], "lines": False, "n_queued": 1, "holds": []},
        "rst-while-closing": {"role": "server", "point": "closing", "cause": "peer-rst", "sched": [], "lines": False, "n_queued": 1, "holds": []},
        "fin-before-cer": {"role": "server", "point": "server-wait-cer", "cause": "peer-fin", "sched": [], "lines": False, "n_queued": 1, "holds": []},
        "blocked-consumer-local-close": {"role": "client", "point": "open-consumer-blocked", "cause": "local-close", "sched": [], "lines": False, "n_queued": 1, "holds": []},
        "queued-inbound-local-close": {"role": "client", "point": "open-inbound-queued", "cause": "local-close", "sched": [], "lines": False, "n_queued": 3, "holds": []},
    },
    "C14": {
        "answer-before-registration": {"k": 1, "hbh": [0x01020304], "perm": [0], "delays": [0.0], "extras": [], "sched": [], "lines": False,
                                       "stagger": 0.0, "hold": 0},
    },
    "C12": {
        "5012-e-flag": {"req": {"kind": "typed", "lib": "etsi_3gpp_s6a", "cls": "UpdateLocationRequest", "extras": [], "omit": None,
                                "args": [["destination_realm", {"t": "b", "x": "726561"}], ["user_name", {"t": "b", "x": "303031"}],
                                         ["visited_plmn_id", {"t": "b", "x": "00f110"}]]},
                        "ans": {"kind": "typed", "lib": "etsi_3gpp_s6a", "cls": "UpdateLocationAnswer", "extras": [], "omit": None, "args": []},
                        "rc": {"mode": "result", "code": 5012, "vendor": 10415}, "via": "route", "req_form": "decoded", "ids": {"hbh": 7, "e2e": 9}},
        "handler-set-e-bit": {"req": _ULR, "ans": _ULA, "rc": {"mode": "result", "code": 5001, "vendor": 10415}, "via": "route", "req_form": "built",
                              "ids": {"hbh": 7, "e2e": 9}, "pre": {"kind": "e-set"}},
        "reused-answer-back-to-success": {"req": _ULR, "ans": _ULA, "rc": {"mode": "result", "code": 2001, "vendor": 10415}, "via": "decorate",
                                          "req_form": "built", "ids": {"hbh": 7, "e2e": 9}, "pre": {"kind": "reused", "code0": 5001}},
    },
}


def main():
    n = 0
    for pid, cases in REG.items():
        d = os.path.join(VERIF, "replays", pid)
        os.makedirs(d, exist_ok=True)
        for name, case in cases.items():
            with open(os.path.join(d, f"reg-{name}.json"), "w") as f:
                json.dump({"property": pid, "expect": "ok", "note": "regression case of a repaired defect (fails on the pinned commit)",
                           "case": case}, f, indent=1, sort_keys=True)
            n += 1
    print(n, "regression replays written")


if __name__ == "__main__":
    main()

#!/venv/bin/python
"""Copies every confirmed seeded change from <root>/Cxx/mutant_X into /verif/seeded/Cxx/X/ (patch.diff, demo.py, meta.json)
and prints the markdown table for DESIGN.md.  usage: tools/keep_seeded.py <root> [--round R2]
(with --round the destination is /verif/seeded/Cxx/<round>_X/)"""
import json, os, shutil, sys, glob

VERIF = os.path.dirname(os.path.dirname(os.path.abspath(__file__)))
root = sys.argv[1]
rnd = sys.argv[sys.argv.index("--round") + 1] if "--round" in sys.argv else None
extra = {}
rows = []
for d in sorted(glob.glob(os.path.join(root, "C*", "mutant_*"))):
    rj = os.path.join(d, "result.json")
    if not os.path.exists(rj) or os.path.getsize(rj) == 0:
        continue
    try:
        res = json.load(open(rj))
    except Exception:
        continue
    meta = json.load(open(os.path.join(d, "meta.json")))
    pid = meta["property"]
    x = os.path.basename(d).split("_")[-1]
    key = f"{pid}/{x}"
    if not res.get("confirmed"):
        rows.append((pid, x, meta.get("summary", "")[:110], "NOT CONFIRMED - dropped", ""))
        continue
    dst = os.path.join(VERIF, "seeded", pid, f"{rnd}_{x}" if rnd else x)
    os.makedirs(dst, exist_ok=True)
    shutil.copy(os.path.join(d, "patch.diff"), dst)
    shutil.copy(os.path.join(d, "demo.py"), dst)
    note = None
    if os.path.exists(os.path.join(d, "patch.as-written.diff")):
        shutil.copy(os.path.join(d, "patch.as-written.diff"), dst)
        note = "patch.diff is the sub-agent's change re-applied by hand on the current HEAD (a later fix: commit touched its context lines); patch.as-written.diff is the original"
    caught = list(res.get("caught_by", []))
    sigs = {c: r["signatures"][:3] for c, r in res.get("checks", {}).items() if r["exit"] == 1}
    for c, s in extra.get(key, {}).items():
        if c not in caught:
            caught.append(c)
            sigs[c] = s
    meta_out = {
        "property": pid, "mutant": x, "summary": meta.get("summary"), "needs_to_manifest": meta.get("needs_to_manifest"),
        "files_touched": meta.get("files_touched"),
        "confirmed_by": "tools/eval_seeded.py in a scratch worktree of /repo HEAD: demo.py exit 0 on the clean tree, patch applies, demo.py exit "
                        f"{res.get('demo_mutant_exit')} with the patch, pinned suite: {res.get('suite')}",
        "checks_run": "git -C /repo apply patch.diff; ./check <ID> --tier quick; git -C /repo checkout -- .",
        "caught_by": caught, "signatures": sigs,
    }
    if note:
        meta_out["note"] = note
    if rnd:
        meta_out["round"] = rnd
    json.dump(meta_out, open(os.path.join(dst, "meta.json"), "w"), indent=1)
    rows.append((pid, f"{rnd}/{x}" if rnd else x, (meta.get("summary") or "")[:150].replace("|", "/").replace("\n", " "), ", ".join(caught) if caught else "**missed**",
                 "; ".join(f"{c}: {s[0]}" for c, s in sigs.items() if s)[:160]))
print("| property | change | what it does | caught by (quick tier) | first signature |")
print("|---|---|---|---|---|")
for r in rows:
    print("| %s | %s | %s | %s | %s |" % r)

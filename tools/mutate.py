#!/venv/bin/python
"""tools/mutate.py FILE 'OLD' 'NEW' -- CHECK_IDS...   apply a one-off textual mutant to /repo, run quick checks, revert."""
import subprocess, sys
f, old, new = sys.argv[1:4]
ids = sys.argv[5:]
p = "/repo/" + f
assert not subprocess.run(["git", "-C", "/repo", "status", "--porcelain", "--untracked-files=no"], capture_output=True, text=True).stdout.strip(), "commit or stash /repo changes first"
s = open(p).read()
assert s.count(old) >= 1, "pattern not found"
open(p, "w").write(s.replace(old, new, 1))
try:
    for i in ids:
        r = subprocess.run(["/verif/check", i, "--tier", "quick"], cwd="/verif", capture_output=True, text=True)
        lines = [l for l in r.stdout.splitlines() if l.startswith(("VIOLATION", "  signature", "HARNESS", i))]
        print(f"[{i}] exit={r.returncode}")
        print("\n".join(lines[:12]))
finally:
    subprocess.run(["git", "-C", "/repo", "checkout", "--", f])
    subprocess.run("rm -f /verif/replays/*/new-*.json", shell=True)

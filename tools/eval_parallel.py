#!/venv/bin/python
"""Sensitivity sweeps without touching /repo or /verif/evidence: each job = (seeded change dir, check id, seed, tier) runs
./check against a private worktree of /repo HEAD with the patch applied (VERIF_REPO) and writes its evidence / replays to a
scratch directory (VERIF_OUT).  Worktrees are removed afterwards.

  tools/eval_parallel.py [-j 4] [--tier quick] [--seeds 1,2,3] [--checks C04,C06] <dir> [<dir> ...]

<dir> holds patch.diff and meta.json (property).  Prints one line per job and a JSON summary (--json FILE).
These runs are *not* the final evaluation of a change (tools/eval_final.sh applies the patch to /repo itself)."""
import json, os, shutil, subprocess, sys, tempfile
from concurrent.futures import ThreadPoolExecutor

VERIF = os.path.dirname(os.path.dirname(os.path.abspath(__file__)))


def sh(cmd, **kw):
    p = subprocess.run(cmd, capture_output=True, text=True, **kw)
    return p.returncode, p.stdout + p.stderr


def job(args):
    d, check, seed, tier = args
    wt = tempfile.mkdtemp(prefix="evalpar-wt-", dir="/tmp"); os.rmdir(wt)
    out = tempfile.mkdtemp(prefix="evalpar-out-", dir="/tmp")
    try:
        rc, o = sh(["git", "-C", "/repo", "worktree", "add", "-q", "--detach", wt, "HEAD"])
        if rc != 0:
            return dict(dir=d, check=check, seed=seed, error="worktree: " + o[-200:])
        if d != "CLEAN":
            rc, o = sh(["git", "-C", wt, "apply", os.path.join(d, "patch.diff")])
            if rc != 0:
                return dict(dir=d, check=check, seed=seed, error="apply: " + o[-200:])
        env = dict(os.environ, VERIF_REPO=wt, VERIF_OUT=out, VERIF_SEED=str(seed))
        rc, o = sh([os.path.join(VERIF, "check"), check, "--tier", tier], cwd=VERIF, env=env, timeout=4 * 3600)
        sigs = [l.strip()[len("signature: "):] for l in o.splitlines() if l.strip().startswith("signature:")]
        tail = [l for l in o.splitlines() if l.startswith(check + " tier") or "HARNESS" in l]
        return dict(dir=d, check=check, seed=seed, exit=rc, signatures=sigs[:6], tail=tail[-2:])
    except subprocess.TimeoutExpired:
        return dict(dir=d, check=check, seed=seed, error="timeout")
    finally:
        sh(["git", "-C", "/repo", "worktree", "remove", "--force", wt])
        shutil.rmtree(wt, ignore_errors=True)
        shutil.rmtree(out, ignore_errors=True)


def main():
    a = sys.argv[1:]
    j, tier, seeds, checks, jsonf, dirs = 4, "quick", [1], None, None, []
    i = 0
    while i < len(a):
        if a[i] == "-j": j = int(a[i + 1]); i += 2
        elif a[i] == "--tier": tier = a[i + 1]; i += 2
        elif a[i] == "--seeds": seeds = [int(x) for x in a[i + 1].split(",")]; i += 2
        elif a[i] == "--checks": checks = a[i + 1].split(","); i += 2
        elif a[i] == "--json": jsonf = a[i + 1]; i += 2
        else: dirs.append(a[i] if a[i] == "CLEAN" else os.path.abspath(a[i])); i += 1
    jobs = []
    for d in dirs:
        if d == "CLEAN":
            cs = checks
        else:
            cs = checks or [json.load(open(os.path.join(d, "meta.json")))["property"]]
        for c in cs:
            for s in seeds:
                jobs.append((d, c, s, tier))
    res = []
    with ThreadPoolExecutor(j) as ex:
        for r in ex.map(job, jobs):
            res.append(r)
            print("%-40s %s seed=%s exit=%s %s %s" % ("/".join(r["dir"].split("/")[-2:]), r["check"], r["seed"], r.get("exit", r.get("error")),
                                                        (r.get("signatures") or [""])[0][:70], " ".join(r.get("tail") or [])[-90:] if r.get("exit") not in (0, 1) else ""), flush=True)
    if jsonf:
        json.dump(res, open(jsonf, "w"), indent=1)


if __name__ == "__main__":
    main()

#!/bin/sh
# every committed regression replay must pass on /repo and fail on the pinned commit (a worktree given as $1)
cd "$(dirname "$0")/.."
orig=${1:-/tmp/orig}
for f in replays/*/reg-*.json; do
  id=$(basename $(dirname $f))
  ./check $id --replay $f >/dev/null 2>&1; now=$?
  VERIF_REPO=$orig ./check $id --replay $f >/dev/null 2>&1; then_=$?
  echo "$f now=$now pinned=$then_"
done

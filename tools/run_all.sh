#!/bin/sh
# usage: tools/run_all.sh quick|thorough [ids...]   -> one summary line per check
cd "$(dirname "$0")/.."
tier=${1:-quick}; shift
ids=${@:-"C01 C02 C03 C04 C05 C06 C07 C08 C09 C10 C11 C12 C13 C14 C15 C16 C17 C18 C19 C20"}
for id in $ids; do
  start=$(date +%s)
  ./check $id --tier $tier > /tmp/run_all_$id.log 2>&1; rc=$?
  end=$(date +%s)
  echo "$id exit=$rc $((end-start))s $(grep -E "^$id tier" /tmp/run_all_$id.log | tail -1)"
  grep -E "VIOLATION|HARNESS|signature|detail" /tmp/run_all_$id.log | head -20
done

#!/bin/sh
# Offline setup: make sure hypothesis (and atheris for C03 thorough) are importable by /venv/bin/python.
set -e
cd "$(dirname "$0")/.."
mkdir -p .deps evidence
if ! /venv/bin/python -c "import hypothesis" 2>/dev/null; then
  /venv/bin/pip install --no-index --find-links /opt/veriftools/wheels --target .deps hypothesis >/dev/null 2>&1 || true
fi
if ! PYTHONPATH=.deps /venv/bin/python -c "import atheris" 2>/dev/null; then
  /venv/bin/pip install --no-index --find-links /opt/veriftools/wheels --target .deps atheris >/dev/null 2>&1 || true
fi
PYTHONPATH=.deps /venv/bin/python -c "import hypothesis; print('hypothesis', hypothesis.__version__)"
PYTHONPATH=.deps /venv/bin/python -c "import atheris; print('atheris ok')" || echo "atheris unavailable (C03 thorough falls back to Hypothesis only)"

#!/venv/bin/python
"""Run the repository's pinned suite (guard off) and compare with BASELINE.json.

exit 0  iff every test in BASELINE.stable_pass passes.
Usage: tools/baseline.py [--quiet]
"""
import json, os, subprocess, sys, tempfile
import xml.etree.ElementTree as ET

BASE = json.load(open("/root/.vp/BASELINE.json")) if os.path.exists("/root/.vp/BASELINE.json") else None


def main():
    env = dict(os.environ)
    env.pop("BROMELIA_VERIF", None)
    with tempfile.TemporaryDirectory(prefix="bromelia-baseline-") as td:
        out = os.path.join(td, "junit.xml")
        cmd = ["/venv/bin/python", "-m", "pytest", "-ra", "-q", "-p", "no:cacheprovider",
               "--timeout=900", "--continue-on-collection-errors", "--junitxml=" + out]
        fast = "--fast" in sys.argv
        if fast:
            cmd += ["--deselect", "tests/test_setup.py", "--ignore", "tests/test_setup.py"]
        # tests/test_setup.py binds fixed ports 3868-3870: run in a private network namespace when possible so that
        # concurrent runs (e.g. in scratch worktrees) cannot collide
        import shlex, shutil
        if shutil.which("unshare") and subprocess.run(["unshare", "-n", "true"], capture_output=True).returncode == 0:
            cmd = ["unshare", "-n", "sh", "-c", "ip link set lo up 2>/dev/null; exec " + " ".join(shlex.quote(c) for c in cmd)]
        # tests/test_setup.py can leave non-daemon threads behind, in which case pytest never exits although the junit
        # report is complete: wait for the report, give the process 30 s more, then terminate it
        import time
        logf = open(os.path.join(td, "pytest.log"), "w")
        proc = subprocess.Popen(cmd, cwd=os.environ.get("VERIF_BASELINE_CWD", "/repo"), env=env, stdout=logf, stderr=subprocess.STDOUT, text=True)
        t_report = None
        deadline = time.time() + 1500
        while proc.poll() is None and time.time() < deadline:
            time.sleep(2)
            if t_report is None and os.path.exists(out) and os.path.getsize(out) > 0:
                t_report = time.time()
            if t_report is not None and time.time() - t_report > 30:
                break
        if proc.poll() is None:
            proc.terminate()
            try:
                proc.wait(10)
            except subprocess.TimeoutExpired:
                proc.kill()
        logf.close()
        tail = "\n".join(open(os.path.join(td, "pytest.log")).read().splitlines()[-5:])
        passed = set()
        root = ET.parse(out).getroot()
        for tc in root.iter("testcase"):
            ok = not any(ch.tag in ("failure", "error", "skipped") for ch in tc)
            if ok:
                passed.add(f"{tc.get('classname')}::{tc.get('name')}")
    print(tail)
    if BASE is None:
        print(f"passed={len(passed)} (no BASELINE.json to compare with)")
        return 0
    want = set(BASE["stable_pass"])
    if "--fast" in sys.argv:
        want = {w for w in want if not w.startswith("tests.test_setup.")}
    missing = sorted(want - passed)
    print(f"passed={len(passed)} baseline={len(want)} missing={len(missing)}")
    for m in missing[:40]:
        print("MISSING", m)
    return 0 if not missing else 1


if __name__ == "__main__":
    sys.exit(main())
